#!/bin/sh
# Builds /verif/.venv offline: overlay on /venv (the repository's environment) plus z3-solver (and crosshair-tool)
# from the offline wheelhouse. Idempotent.
set -e
cd "$(dirname "$0")"
V=.venv
if [ ! -x "$V/bin/python" ] || ! "$V/bin/python" -c "import z3, numpy, machupX" >/dev/null 2>&1; then
  rm -rf "$V"
  /venv/bin/python -m venv "$V"
  SP=$("$V/bin/python" -c "import sysconfig; print(sysconfig.get_paths()['purelib'])")
  printf '/venv/lib/python3.12/site-packages\n/repo\n' > "$SP/verif_overlay.pth"
  PIP_NO_INDEX=1 "$V/bin/python" -m pip install -q --no-index --find-links /opt/veriftools/wheels z3-solver >/dev/null
  PIP_NO_INDEX=1 "$V/bin/python" -m pip install -q --no-index --find-links /opt/veriftools/wheels crosshair-tool >/dev/null 2>&1 || true
fi
"$V/bin/python" -c "import z3, numpy, scipy, machupX; print('verif venv ok: z3', z3.get_version_string(), 'numpy', numpy.__version__)"
