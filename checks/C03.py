"""C03 -- body-frame results are invariant under rigid motion; quaternion algebra.

L0  real helpers (quat_trans, quat_inv_trans, quat_mult, quat_conj, euler_to_quat, quat_to_euler) on symbolic inputs:
    inverse pair, |q|^4 law, length preservation, composition == quat_mult, orthogonality, det +1, unit Euler quaternion,
    Euler round trip (arguments of the inverse trigonometric atoms equal k*sin / k*cos of the input angles, k > 0).
L1  real Airplane.set_state: stored quaternion is unit and parallel to the input; Euler input; velocity vector storage.
L2/L3  twin run of the whole numeric pipeline (assembly -> flow properties -> residual for arbitrary circulation -> load
    integration) on family G: run A at the exact identity pose, run B at an arbitrary unit quaternion and position with the same
    body-frame velocity, rates, controls: every Earth-frame array is the rigid image, the residual and all body-frame results
    are equal (cut points + event-ordered atom alignment, checks/twin.py).
L4  analyses inherit the invariance because their only access to the pose is through the solve (C08-C11 harnesses run with
    symbolic pose).
"""
import numpy as np
import z3

from symx import facade, smt
from symx.explore import explore, run_single
from symx.harness import Check, Finding, run_parallel
from symx.smt import Obligation
from symx.values import SR, sym, zexpr, ctx, simp, exact, Ctx
from symx.rel import cone_defs
from symx.facade import wrap, SA

from checks.families import family_G, UFAirfoil, LinearAirfoil, use_airfoil
from checks import twin as TW
from checks import kernel as K


def V(name, n):
    return wrap(np.array([sym("%s%d" % (name, i)) for i in range(n)], dtype=object))


# ---- L0 ----------------------------------------------------------------------------------------------------------
def lemmas_L0(ck):
    import machupX.helpers as H
    ck.encoded(H.quat_trans, H.quat_inv_trans, H.quat_mult, H.quat_conj, H.euler_to_quat, H.quat_to_euler)
    ck.rung("L0 quaternion helper lemmas")
    Ctx.cur = c = Ctx()
    q, r, v = V("q", 4), V("r", 4), V("v", 3)
    nq2 = q[0] * q[0] + q[1] * q[1] + q[2] * q[2] + q[3] * q[3]
    nr2 = r[0] * r[0] + r[1] * r[1] + r[2] * r[2] + r[3] * r[3]
    unit_q = zexpr(nq2) == 1
    unit_r = zexpr(nr2) == 1
    obs = []

    def vec_eq(a, b):
        return z3.And(*[zexpr(SR(x)) == zexpr(SR(y)) for x, y in zip(a, b)])

    def mk(name):
        return lambda ob: Finding("helper", {"lemma": name, "model": {k: x for k, x in (ob.model or {}).items()}}, ob.label, ob.model)
    t = H.quat_trans(q, v)
    back = H.quat_inv_trans(q, t)
    obs.append(Obligation("L0 inverse pair: quat_inv_trans(q, quat_trans(q, v)) == |q|^4 v (all q)", [], vec_eq(back, [nq2 * nq2 * v[i] for i in range(3)]), meta={"finding": mk("inverse")}))
    obs.append(Obligation("L0 inverse pair on unit q is the identity", [unit_q], vec_eq(back, v), meta={"finding": mk("inverse")}))
    back2 = H.quat_trans(q, H.quat_inv_trans(q, v))
    obs.append(Obligation("L0 inverse pair (other order) on unit q", [unit_q], vec_eq(back2, v), meta={"finding": mk("inverse2")}))
    obs.append(Obligation("L0 length: |quat_trans(q,v)|^2 == |q|^4 |v|^2", [], zexpr(t[0] * t[0] + t[1] * t[1] + t[2] * t[2]) == zexpr(nq2 * nq2 * (v[0] * v[0] + v[1] * v[1] + v[2] * v[2])), meta={"finding": mk("length")}))
    ti = H.quat_inv_trans(q, v)
    obs.append(Obligation("L0 length: |quat_inv_trans(q,v)|^2 == |q|^4 |v|^2", [], zexpr(ti[0] * ti[0] + ti[1] * ti[1] + ti[2] * ti[2]) == zexpr(nq2 * nq2 * (v[0] * v[0] + v[1] * v[1] + v[2] * v[2])), meta={"finding": mk("length")}))
    comp = H.quat_trans(r, H.quat_trans(q, v))
    prod = H.quat_mult(q, r)
    obs.append(Obligation("L0 composition: quat_trans(r, quat_trans(q, v)) == quat_trans(quat_mult(q, r), v)", [], vec_eq(comp, H.quat_trans(prod, v)), meta={"finding": mk("composition")}))
    compi = H.quat_inv_trans(q, H.quat_inv_trans(r, v))
    obs.append(Obligation("L0 composition (inverse): quat_inv_trans(q, quat_inv_trans(r, v)) == quat_inv_trans(quat_mult(q, r), v)", [], vec_eq(compi, H.quat_inv_trans(prod, v)), meta={"finding": mk("composition")}))
    obs.append(Obligation("L0 |quat_mult(q,r)|^2 == |q|^2 |r|^2", [], zexpr(prod[0] * prod[0] + prod[1] * prod[1] + prod[2] * prod[2] + prod[3] * prod[3]) == zexpr(nq2 * nr2), meta={"finding": mk("mult_norm")}))
    cj = H.quat_conj(q)
    obs.append(Obligation("L0 conj(conj(q)) == q", [], vec_eq(H.quat_conj(cj), q), meta={"finding": mk("conj")}))
    qc = H.quat_mult(q, wrap(np.array(cj, dtype=object)))
    obs.append(Obligation("L0 q * conj(q) == (|q|^2, 0, 0, 0)", [], vec_eq(qc, [nq2, SR(0.0), SR(0.0), SR(0.0)]), meta={"finding": mk("conj")}))
    obs.append(Obligation("L0 quat_trans(conj(q), v) == quat_inv_trans(q, v)", [], vec_eq(H.quat_trans(wrap(np.array(cj, dtype=object)), v), ti), meta={"finding": mk("conj")}))
    # vectorised call == row-wise call
    M = wrap(np.array([[sym("m%d%d" % (i, j)) for j in range(3)] for i in range(2)], dtype=object))
    tm = H.quat_trans(q, M)
    obs.append(Obligation("L0 vectorised quat_trans == row by row", [], z3.And(vec_eq(tm[0], H.quat_trans(q, M[0])), vec_eq(tm[1], H.quat_trans(q, M[1]))), meta={"finding": mk("vectorised")}))
    # rotation matrix: rows of R^T are quat_inv_trans(q, e_i); orthogonal with det +1 on unit q
    E = [H.quat_inv_trans(q, wrap(np.array(e, dtype=object))) for e in ([1.0, 0.0, 0.0], [0.0, 1.0, 0.0], [0.0, 0.0, 1.0])]
    terms = []
    for i in range(3):
        for j in range(3):
            d = E[i][0] * E[j][0] + E[i][1] * E[j][1] + E[i][2] * E[j][2]
            terms.append(zexpr(d) == (1 if i == j else 0))
    obs.append(Obligation("L0 rotation matrix orthogonal on unit q", [unit_q], z3.And(*terms), meta={"finding": mk("orthogonal")}))
    det = E[0][0] * (E[1][1] * E[2][2] - E[1][2] * E[2][1]) - E[0][1] * (E[1][0] * E[2][2] - E[1][2] * E[2][0]) + E[0][2] * (E[1][0] * E[2][1] - E[1][1] * E[2][0])
    obs.append(Obligation("L0 rotation matrix det == +1 on unit q", [unit_q], zexpr(det) == 1, meta={"finding": mk("det")}))
    # Euler angles
    Eang = [sym("phi"), sym("theta"), sym("psi")]
    qe = H.euler_to_quat(Eang)
    ne2 = qe[0] * qe[0] + qe[1] * qe[1] + qe[2] * qe[2] + qe[3] * qe[3]
    defs = cone_defs(c, [zexpr(ne2)])
    obs.append(Obligation("L0 euler_to_quat is a unit quaternion", defs, zexpr(ne2) == 1, meta={"finding": mk("euler_unit")}))
    # round trip: the arguments handed to atan2 / asin by quat_to_euler(euler_to_quat(E)) are k*sin, k*cos of the input angles
    n_ev = len(c.events)
    back_E = H.quat_to_euler(qe)
    ev = c.events[n_ev:]
    half = {nm: (None, None) for nm in ("phi", "theta", "psi")}

    def half_atoms(name):
        s_ = c.atoms.get(("sin", simp(zexpr(sym(name) / 2)).get_id()))
        c_ = c.atoms.get(("cos", simp(zexpr(sym(name) / 2)).get_id()))
        return (s_[0] if s_ else None), (c_[0] if c_ else None)
    ok_struct = len(ev) >= 3 and [e[1] for e in ev[:3]] == ["atan2", "asin", "atan2"]
    if ok_struct:
        S, Cc = {}, {}
        for nm in ("phi", "theta", "psi"):
            S[nm], Cc[nm] = half_atoms(nm)
        if all(S[n] is not None and Cc[n] is not None for n in S):
            sin = {n: 2 * S[n] * Cc[n] for n in S}
            cos = {n: Cc[n] * Cc[n] - S[n] * S[n] for n in S}
            y0, x0 = ev[0][2]
            a1 = ev[1][2][0]
            y2, x2 = ev[2][2]
            g = z3.And(y0 == cos["theta"] * sin["phi"], x0 == cos["theta"] * cos["phi"], a1 == sin["theta"], y2 == cos["theta"] * sin["psi"], x2 == cos["theta"] * cos["psi"])
            obs.append(Obligation("L0 Euler round trip: atan2/asin arguments are (cos(theta) sin(phi), cos(theta) cos(phi)), sin(theta), (cos(theta) sin(psi), cos(theta) cos(psi))",
                                  cone_defs(c, [g]), g, meta={"finding": mk("euler_roundtrip")}))
        else:
            ok_struct = False
    if not ok_struct:
        obs.append(Obligation("L0 Euler round trip structure (atan2, asin, atan2 of half-angle products)", [], z3.BoolVal(False), meta={"finding": mk("euler_roundtrip")}))
    obs.append(Obligation("L0 canary", [unit_q], zexpr(back[0]) == zexpr(v[1]), canary=True))
    ck.add(obs)
    ck.sample({"lemma": "inverse pair", "lhs0": str(back[0])[:300]})
    ck.assume("Euler round trip: atan2(k sin a, k cos a) = a for k > 0, |a| < pi and asin(sin a) = a for |a| < pi/2 (trusted trigonometry); the solver proves the argument identities with double-angle expressions of the half-angle atoms")


# ---- L1 ----------------------------------------------------------------------------------------------------------
def lemmas_L1(ck):
    import machupX as MX
    import machupX.airplane as AP
    ck.encoded(AP.Airplane.set_state)
    ck.rung("L1 state parsing")

    def run():
        sc = MX.Scene({"units": "English", "scene": {"atmosphere": {"rho": 0.0023769}}})
        sc.add_aircraft("p", family_G("g1"), state={"velocity": [100.0, 0.0, 5.0]})
        ap = sc._airplanes["p"]
        qin = [sym("a%d" % i) for i in range(4)]
        vb = [sym("vb%d" % i) for i in range(3)]
        ap.set_state(orientation=qin, velocity=vb, position=[sym("p0"), sym("p1"), sym("p2")], angular_rates=[sym("w0"), sym("w1"), sym("w2")])
        out = {"q": list(ap.q), "qin": qin, "v": list(ap.v), "vb": vb, "p": list(ap.p_bar), "w": list(ap.w)}
        Ea = [sym("E0"), sym("E1"), sym("E2")]
        ap.set_state(orientation=Ea, velocity=vb)
        from machupX.helpers import euler_to_quat, quat_inv_trans
        out["qE"] = list(ap.q)
        out["qE_want"] = list(euler_to_quat(facade.NP.radians(wrap(np.array(Ea, dtype=object)))))
        out["vE"] = list(ap.v)
        out["vE_want"] = list(quat_inv_trans(ap.q, wrap(np.array(vb, dtype=object))))
        return out
    a = [z3.Real("a%d" % i) for i in range(4)]
    res = explore(run, assumptions=[sum(x * x for x in a) > 0], max_paths=4)
    ck.add_paths(res)
    for p in res:
        if not p.ok:
            ck.inconc("L1: %s %r %s" % (p.kind, p.exc, (p.tb or "")[-300:]))
            continue
        v = p.value
        facts = p.facts()
        mk = lambda ob: Finding("set_state", {"model": ob.model}, ob.label, ob.model)
        n2 = sum((zexpr(x) * zexpr(x) for x in v["q"]), z3.RealVal(0))
        from machupX.helpers import quat_inv_trans
        vw = quat_inv_trans(wrap(np.array(v["q"], dtype=object)), wrap(np.array(v["vb"], dtype=object)))
        # parallel: q_stored * |q_in| == q_in  <=>  cross-ratios vanish and the scale is positive
        par = z3.And(*[zexpr(v["q"][i]) * zexpr(v["qin"][j]) == zexpr(v["q"][j]) * zexpr(v["qin"][i]) for i in range(4) for j in range(i + 1, 4)])
        pos = sum((zexpr(v["q"][i]) * zexpr(v["qin"][i]) for i in range(4)), z3.RealVal(0)) > 0
        ck.add([Obligation("L1 stored quaternion is unit (non-normalised 4-vector input)", facts, n2 == 1, meta={"finding": mk}),
                Obligation("L1 stored quaternion is parallel to the input and equally oriented", facts, z3.And(par, pos), meta={"finding": mk}),
                Obligation("L1 body velocity vector stored as quat_inv_trans(q, v_b); position and rates stored as given", facts,
                           z3.And(*([zexpr(SR(x)) == zexpr(SR(y)) for x, y in zip(v["v"], vw)] + [zexpr(SR(x)) == z3.Real("p%d" % i) for i, x in enumerate(v["p"])] +
                                    [zexpr(SR(x)) == z3.Real("w%d" % i) for i, x in enumerate(v["w"])])), meta={"finding": mk}),
                Obligation("L1 Euler-angle input (degrees) -> euler_to_quat(radians)", facts, z3.And(*[zexpr(SR(x)) == zexpr(SR(y)) for x, y in zip(v["qE"], v["qE_want"])] +
                                                                                                      [zexpr(SR(x)) == zexpr(SR(y)) for x, y in zip(v["vE"], v["vE_want"])]), meta={"finding": mk}),
                Obligation("L1 canary", facts, n2 == 2, canary=True)])


# ---- L2/L3 pipeline twin ---------------------------------------------------------------------------------------------
def pipeline_twin(ck, member, N, solver, label, wind=True):
    import machupX as MX
    from machupX.helpers import quat_inv_trans, quat_trans

    def run():
        c = ctx()
        c.where_assume_true = True        # no trailing vortex impinges on a control point: denom > 1e-13 assumed at every pair (both runs)
        q = [sym("q%d" % i) for i in range(4)]
        c.declare_unit(q)
        pvec = [sym("px"), sym("py"), sym("pz")]
        vb = [sym("u"), sym("v"), sym("w")]
        wb = [sym("wp"), sym("wq"), sym("wr")]
        Wb = [sym("Wb0"), sym("Wb1"), sym("Wb2")] if wind else None       # uniform wind given in *body* axes so that the body-frame state is the same in both runs
        qarr = wrap(np.array(q, dtype=object))
        gam = None

        def make(pose):
            def mk():
                use_airfoil(UFAirfoil)
                try:
                    if pose == "A":
                        qq = [exact(1), exact(0), exact(0), exact(0)]
                        pp = [exact(0), exact(0), exact(0)]
                        Wearth = list(Wb) if wind else [0.0, 0.0, 0.0]
                    else:
                        qq, pp = q, pvec
                        Wearth = list(quat_inv_trans(qarr, wrap(np.array(Wb, dtype=object)))) if wind else [0.0, 0.0, 0.0]
                    sc = MX.Scene({"units": "English", "solver": dict(solver), "scene": {"atmosphere": {"rho": 0.0023769, "V_wind": Wearth}}})
                    sc.add_aircraft("p", family_G(member, N=N), state={"velocity": [100.0, 0.0, 5.0]})
                finally:
                    use_airfoil(None)
                sc._impingement_threshold = -np.inf      # the threshold only triggers a warning; -inf keeps the test from forking
                ap = sc._airplanes["p"]
                ap.q = wrap(np.array(qq, dtype=object))
                ap.p_bar = wrap(np.array(pp, dtype=object))
                ap.v = quat_inv_trans(ap.q, wrap(np.array(vb, dtype=object)))
                ap.w = wrap(np.array(wb, dtype=object))
                for seg in ap.segments:
                    seg._delta_flap = wrap(np.array([sym("df_%s_%d" % (seg.name, i)) for i in range(seg.N)], dtype=object))
                return sc
            return mk

        def pipeline(sc):
            nonlocal gam
            sc._perform_geometry_and_atmos_calcs()
            sc._calc_invariant_flow_properties()
            if gam is None:
                gam = wrap(np.array([sym("gam%d" % i) for i in range(sc._N)], dtype=object))
            R = sc._lifting_line_residual(gam)
            sc._FM = {}
            sc._integrate_forces_and_moments(body_frame=True, stab_frame=False, wind_frame=False, report_by_segment=True)
            sc._solved = True
            d = sc.distributions()["p"]
            dist = {}
            for seg, dd in d.items():
                for k in ("Fx", "Fy", "Fz", "Mx", "My", "Mz", "alpha", "section_CL", "u", "v", "w"):
                    for i, x in enumerate(dd[k]):
                        dist["%s.%s[%d]" % (seg, k, i)] = x
            ap = sc._airplanes["p"]
            vinf = -ap.v + sc._get_wind(ap.p_bar)
            Vinf = facade.NP.linalg.norm(vinf)
            uinf_b = quat_trans(ap.q, vinf / Vinf)     # body-frame freestream direction: with C02 (frames are rotations defined by it) this carries wind/stability axes
            fm = K.flatten_fm(sc._FM)
            fm["freestream/u_inf_body_x"], fm["freestream/u_inf_body_y"], fm["freestream/u_inf_body_z"], fm["freestream/V_inf"] = uinf_b[0], uinf_b[1], uinf_b[2], Vinf
            return {"R": list(R), "FM": fm, "dist": dist, "geom": {nm: getattr(sc, nm) for nm in ("_PC", "_r_CG", "_dl", "_u_a", "_u_n", "_u_s")}}

        rot = lambda x, k: quat_inv_trans(qarr, wrap(np.asarray(x, dtype=object)))
        T = TW.Transform(vec=rot, name="rigid motion")
        tw = TW.Twin(T, align_timeout_ms=4000)
        outA, outB, scA, scB = tw.run(make("A"), make("B"), pipeline)
        return {"A": outA, "B": outB, "tw": tw, "N": scA._N, "p": pvec, "rot": rot}

    res = explore(run, max_paths=6)
    ck.add_paths(res)
    for p in res:
        lab = "%s path%s" % (label, "".join("1" if d else "0" for d in p.decisions))
        if not p.ok:
            ck.inconc("%s: %s %r %s" % (lab, p.kind, p.exc, (p.tb or "")[-600:]))
            continue
        v = p.value
        tw = v["tw"]
        Ctx.cur = p.ctx

        def mk(ob, member=member, N=N, solver=solver, wind=wind):
            return Finding("rigid", {"member": member, "N": N, "solver": solver, "wind": wind, "what": ob.label}, ob.label, ob.model)
        for ob in tw.obligs:
            ob.label = lab + " " + ob.label
            ob.meta["finding"] = mk
        ck.add(tw.obligs)
        ck.aligned += tw.stats["aligned"]
        A, B = v["A"], v["B"]
        obs = []
        # Earth-frame geometry arrays are rigid images
        pv = v["p"]
        for nm, is_point in (("_PC", True), ("_r_CG", False), ("_dl", False), ("_u_a", False), ("_u_n", False), ("_u_s", False)):
            for i in range(v["N"]):
                img = v["rot"](A["geom"][nm][i], 0)
                if is_point:
                    img = [img[a] + pv[a] for a in range(3)]
                g = z3.And(*[zexpr(SR(B["geom"][nm][i][a])) == zexpr(SR(img[a])) for a in range(3)])
                obs.append(Obligation("%s %s[%d] is the rigid image" % (lab, nm, i), tw._facts_for(p.ctx, g), g, meta={"finding": mk}))
        for i, (ra, rb) in enumerate(zip(A["R"], B["R"])):
            obs.append(tw.result_obligation("%s residual[%d] invariant" % (lab, i), rb, ra))
        if set(A["FM"]) != set(B["FM"]):
            obs.append(Obligation(lab + " result key set", [], z3.BoolVal(False)))
        for k in sorted(set(A["FM"]) & set(B["FM"])):
            obs.append(tw.result_obligation("%s %s invariant" % (lab, k), B["FM"][k], A["FM"][k]))
        for k in sorted(set(A["dist"]) & set(B["dist"])):
            obs.append(tw.result_obligation("%s distributions %s invariant" % (lab, k), B["dist"][k], A["dist"][k]))
        for ob in obs:
            ob.meta["finding"] = mk
        ck.add(obs)
        k0 = sorted(A["FM"])[len(A["FM"]) // 2]
        cg = zexpr(SR(B["FM"][k0])) == zexpr(SR(A["FM"][k0])) + 1
        ck.add([Obligation(lab + " canary", tw._facts_for(p.ctx, cg), cg, canary=True),
                Obligation(lab + " reach", list(p.ctx.assumptions) + list(p.ctx.pc), z3.BoolVal(True), witness=True)])
        if tw.unmatched:
            ck.note("%s: %d atom pairs not aligned (not a verdict), e.g. %s" % (lab, tw.stats["unmatched"], tw.unmatched[:2]))
        if len(ck.samples) < 4:
            ck.sample({"case": label, "N": v["N"], "cut_obligations": len(tw.obligs), "atoms_aligned": tw.stats["aligned"], "atoms_unmatched": tw.stats["unmatched"],
                       "result_keys": len(A["FM"]), "example": str(B["FM"][k0])[:200]})
    Ctx.cur = None


# ---- replay ------------------------------------------------------------------------------------------------------
def replay_helper(inp):
    from checks.analysis import real_classes
    rng = np.random.RandomState(11)
    bad = []
    with real_classes():
        import machupX.helpers as H
        for _ in range(5):
            q = rng.normal(size=4); qn = q / np.linalg.norm(q); r = rng.normal(size=4); v = rng.normal(size=3)
            n2 = q @ q
            chk = {
                "inverse": np.allclose(H.quat_inv_trans(q, H.quat_trans(q, v)), n2 * n2 * v, rtol=1e-10),
                "inverse2": np.allclose(H.quat_trans(qn, H.quat_inv_trans(qn, v)), v, rtol=1e-10),
                "length": np.isclose(np.linalg.norm(H.quat_trans(qn, v)), np.linalg.norm(v), rtol=1e-10) and np.isclose(np.linalg.norm(H.quat_inv_trans(qn, v)), np.linalg.norm(v), rtol=1e-10),
                "composition": np.allclose(H.quat_trans(r, H.quat_trans(q, v)), H.quat_trans(H.quat_mult(q, r), v), rtol=1e-10) and
                np.allclose(H.quat_inv_trans(q, H.quat_inv_trans(r, v)), H.quat_inv_trans(H.quat_mult(q, r), v), rtol=1e-10),
                "mult_norm": np.isclose(np.linalg.norm(H.quat_mult(q, r)), np.linalg.norm(q) * np.linalg.norm(r), rtol=1e-10),
                "conj": np.allclose(H.quat_conj(H.quat_conj(q)), q) and np.allclose(H.quat_mult(q, np.array(H.quat_conj(q))), [n2, 0, 0, 0], atol=1e-10) and
                np.allclose(H.quat_trans(np.array(H.quat_conj(q)), v), H.quat_inv_trans(q, v), rtol=1e-10),
                "vectorised": np.allclose(H.quat_trans(q, np.array([v, 2 * v])), [H.quat_trans(q, v), H.quat_trans(q, 2 * v)], rtol=1e-12),
            }
            Rm = np.array([H.quat_inv_trans(qn, e) for e in np.eye(3)])
            chk["orthogonal"] = np.allclose(Rm @ Rm.T, np.eye(3), atol=1e-10)
            chk["det"] = np.isclose(np.linalg.det(Rm), 1.0, atol=1e-10)
            E = rng.uniform(-1.2, 1.2, size=3)
            qe = H.euler_to_quat(E)
            chk["euler_unit"] = np.isclose(np.linalg.norm(qe), 1.0, atol=1e-12)
            chk["euler_roundtrip"] = np.allclose(H.quat_to_euler(qe), E, atol=1e-9)
            for k, ok in chk.items():
                if not ok and (inp["lemma"] == k or True):
                    bad.append(k)
    bad = sorted(set(bad))
    return {"reproduced": bool(bad), "key": "quaternion helpers: " + ",".join(bad), "observed": bad, "what": "quaternion helper lemmas fail on random inputs: %s" % bad}


def replay_set_state(inp):
    from checks.analysis import real_classes
    bad = []
    with real_classes():
        import machupX as MX
        from machupX.helpers import quat_inv_trans, euler_to_quat
        sc = MX.Scene({"units": "English", "scene": {"atmosphere": {"rho": 0.0023769}}})
        sc.add_aircraft("p", family_G("g1"), state={"velocity": [100.0, 0.0, 5.0]})
        ap = sc._airplanes["p"]
        qin = np.array([2.0, -0.6, 0.8, 1.1]); vb = np.array([90.0, 4.0, 7.0])
        ap.set_state(orientation=list(qin), velocity=list(vb), position=[1.0, 2.0, 3.0], angular_rates=[0.1, 0.2, 0.3])
        if not np.isclose(np.linalg.norm(ap.q), 1.0, atol=1e-12) or not np.allclose(ap.q * np.linalg.norm(qin), qin, rtol=1e-12):
            bad.append("quaternion normalisation")
        if not np.allclose(ap.v, quat_inv_trans(ap.q, vb), rtol=1e-12) or not np.allclose(ap.p_bar, [1, 2, 3]) or not np.allclose(ap.w, [0.1, 0.2, 0.3]):
            bad.append("velocity/position/rates storage")
        ap.set_state(orientation=[10.0, 20.0, 30.0], velocity=list(vb))
        if not np.allclose(ap.q, euler_to_quat(np.radians([10.0, 20.0, 30.0])), rtol=1e-12):
            bad.append("Euler input")
    return {"reproduced": bool(bad), "key": "set_state: " + ",".join(bad), "observed": bad, "what": "Airplane.set_state: %s" % bad}


def replay_rigid(inp):
    """body-frame results at identity pose vs a rotated/translated scene with the same body-frame state (real solver)"""
    from checks.analysis import real_classes
    import machupX as MX
    from machupX.helpers import quat_inv_trans
    rng = np.random.RandomState(7)
    bad = []
    with real_classes():
        for trial in range(2):
            q = rng.normal(size=4); q /= np.linalg.norm(q)
            pos = rng.uniform(-500, 500, size=3)
            vb = [100.0, 4.0 * (trial + 1), 8.0]; wb = [0.05, -0.03, 0.04]
            Wb = np.array([6.0, -4.0, 2.0]) if inp.get("wind", True) else np.zeros(3)
            res = []
            for qq, pp in (([1.0, 0.0, 0.0, 0.0], [0.0, 0.0, 0.0]), (list(q), list(pos))):
                W = quat_inv_trans(np.array(qq), Wb)
                sc = MX.Scene({"units": "English", "solver": dict(inp["solver"]), "scene": {"atmosphere": {"rho": 0.0023769, "V_wind": list(W)}}})
                sc.add_aircraft("p", family_G(inp["member"], N=inp["N"]), state={"position": pp, "orientation": qq, "velocity": vb, "angular_rates": wb})
                fm = sc.solve_forces(body_frame=True, stab_frame=True, wind_frame=True, report_by_segment=True)
                flat = {k: float(x) for k, x in K.flatten_fm(fm).items()}
                d = sc.distributions()["p"]
                for seg, dd in d.items():
                    for k in ("Fx", "Fz", "My", "alpha", "section_CL"):
                        for i, x in enumerate(dd[k]):
                            flat["dist:%s.%s[%d]" % (seg, k, i)] = float(x)
                res.append(flat)
            for k in res[0]:
                a, b = res[0][k], res[1].get(k)
                if b is None or abs(a - b) > 1e-7 * max(abs(a), abs(b), 1e-2):
                    bad.append((k, a, b))
            if bad:
                break
    ks = sorted(set(b[0].split("/")[-1] for b in bad))
    return {"reproduced": bool(bad), "key": "rigid motion changes: " + ",".join(ks[:6]), "observed": bad[:6],
            "what": "body-frame results change under a rigid motion of the aircraft (same body-frame state): %s" % (bad[:3],)}


REPLAYS = {"helper": replay_helper, "set_state": replay_set_state, "rigid": replay_rigid}


def main(tier, seed, only=None):
    ck = Check("C03", tier, seed, REPLAYS)
    ck.portfolio = (("/usr/bin/z3", 1.0), ("z3api", 1.0), ("cvc5", 1.0))
    facade.install()
    import machupX.scene as SC
    ck.encoded(SC.Scene._perform_geometry_and_atmos_calcs, SC.Scene._calc_invariant_flow_properties, SC.Scene._lifting_line_residual, SC.Scene._calc_v_i, SC.Scene._get_section_lift,
               SC.Scene._correct_CL_for_sweep, SC.Scene._integrate_forces_and_moments, SC.Scene.distributions)
    ck.stub("airfoil evaluations uninterpreted (per control point)", "circulation: arbitrary symbolic vector (the residual equation and the loads are invariant for every circulation, hence for the root)")
    ck.assume("uniform atmosphere (property); uniform wind given in body axes so that the body-frame state is shared", "reals, not floats", "unit quaternion (for the pipeline); helper lemmas also for non-unit q where stated")
    ck.out_of_claim("uniqueness of the root of the lifting-line equations (invariance is shown for the equations and for every circulation)",
                    "configurations where a trailing vortex impinges on a control point (denominators assumed > 1e-13)")
    ck.assume("wind- and stability-frame results are functions of the body-frame loads and the body-frame freestream direction (decided in C02); both are shown invariant here")
    tasks = []
    if not only or "L0" in only:
        tasks.append(("L0", lemmas_L0))
    if not only or "L1" in only:
        tasks.append(("L1", lemmas_L1))
    full = dict(use_swept_sections=True, use_total_velocity=True, use_in_plane=True)
    plan = [("g1", 2, full, "pipeline g1 N=4 default options")]
    if tier == "thorough":
        plan += [("g3", 2, full, "pipeline g3 one-sided N=4"), ("g1", 2, dict(use_swept_sections=False, use_total_velocity=False, use_in_plane=False), "pipeline g1 N=4 options off"),
                 ("g1", 2, dict(full, constrain_vortex_sheet=True), "pipeline g1 N=4 constrained sheet"), ("g2", 2, full, "pipeline g2 wing+fin Reid N=7")]
    else:
        plan += [("g1", 2, dict(full, constrain_vortex_sheet=True), "pipeline g1 N=4 constrained sheet")]
    for member, N, solver, label in plan:
        if only and not any(o in label for o in only):
            continue
        tasks.append((label, lambda c, member=member, N=N, solver=solver, label=label: pipeline_twin(c, member, N, solver, label)))
    run_parallel(ck, tasks)
    ck.bound(pipeline="family G members (concrete body geometry), N <= 7; arbitrary unit quaternion, position, body velocity, rates, wind, flap deflections, circulation")
    ck.rung("L0, L1, pipeline twin (assembly + kernel)")
    return ck.finish()
