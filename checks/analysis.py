"""Shared harness for the analysis-level properties (C07-C11, C03-L4): real Scene analyses run symbolically with

* LLsolve  -- `Scene.solve_forces` replaced by a stub whose outputs are uninterpreted functions of the physical scene
              state actually stored at call time (cached Earth-frame arrays, velocities, rates, flap deflections, atmosphere);
* AeroADT  -- the trigonometric parametrisation inside Airplane.get/set_aerodynamic_state replaced by an abstract bijection
              x (body-frame air-relative velocity)  <->  (alpha, beta, V); the frame / wind handling of the two real methods
              (lines 259 and 316 of airplane.py) is reproduced verbatim; the round-trip laws of the real pair are a separate lemma.
"""
import copy

import numpy as np
import z3

from symx import facade, smt
from symx.values import SR, SB, sym, ctx, zexpr, simp, exact, Ctx
from symx.smt import Obligation

FRAME_KEYS = {
    ("nd", "body"): ["Cx", "Cy", "Cz", "Cl", "Cm", "Cn"],
    ("nd", "stab"): ["Cx_s", "Cy_s", "Cz_s", "Cl_s", "Cm_s", "Cn_s"],
    ("nd", "wind"): ["CL", "CD", "CS", "Cl_w", "Cm_w", "Cn_w"],
    ("d", "body"): ["Fx", "Fy", "Fz", "Mx", "My", "Mz"],
    ("d", "stab"): ["Fx_s", "Fy_s", "Fz_s", "Mx_s", "My_s", "Mz_s"],
    ("d", "wind"): ["FL", "FD", "FS", "Mx_w", "My_w", "Mz_w"],
}


def _flat(x):
    if isinstance(x, (SR, SB)):
        return [x]
    a = np.asarray(x, dtype=object).reshape(-1)
    return [v if isinstance(v, (SR, SB)) else SR(v) for v in a]


class World:
    """Per-path shared tables: LLsolve call log and the aero-angle bijection."""

    def __init__(self, key_mode="earth"):
        self.calls = []          # dicts: state (list of z3 terms), sig, out {aircraft: {key: SR}}, owner
        self.aero = []           # records: dict(alpha, beta, V, x) -- one bijection shared by all scenes
        self.key_mode = key_mode
        self.facts = []          # congruence facts are produced on demand
        self.n_fresh = 0
        self.prove_equal = True
        self.max_diff = 400
        self.max_candidates = 16

    def _facts(self, exprs):
        from symx.rel import cone_defs
        c = ctx()
        return list(c.assumptions) + list(c.pc) + cone_defs(c, exprs)

    # ---- aero-angle bijection ------------------------------------------------------------------
    def aero_get(self, x, facts):
        xs = [simp(zexpr(v)) for v in x]
        for rec in reversed(self.aero):
            if all(a.get_id() == b.get_id() for a, b in zip(xs, rec["xs"])):
                return rec
        for rec in reversed(self.aero):
            g = z3.And(*[a == b for a, b in zip(xs, rec["xs"])])
            if smt.entails(self._facts(list(xs) + list(rec["xs"])), g, 10000):
                return rec
        k = len(self.aero)
        rec = {"alpha": SR(z3.Real("aero_alpha!%d" % k)), "beta": SR(z3.Real("aero_beta!%d" % k)), "V": SR(z3.Real("aero_V!%d" % k)),
               "xs": xs, "x": [SR(v) for v in xs]}
        Vk = z3.Real("aero_V!%d" % k)
        # contract of the real pair: V is the magnitude of the air-relative velocity
        ctx().assumptions.append(z3.And(Vk > 0, Vk * Vk == xs[0] * xs[0] + xs[1] * xs[1] + xs[2] * xs[2]))
        rec["abv"] = [simp(zexpr(rec[n])) for n in ("alpha", "beta", "V")]
        self.aero.append(rec)
        return rec

    def aero_set(self, alpha, beta, V, facts):
        abv = [simp(zexpr(SR(v))) for v in (alpha, beta, V)]
        for rec in reversed(self.aero):
            if all(a.get_id() == b.get_id() for a, b in zip(abv, rec["abv"])):
                return rec
        for rec in reversed(self.aero):
            g = z3.And(*[a == b for a, b in zip(abv, rec["abv"])])
            if smt.entails(self._facts(list(abv) + list(rec["abv"])), g, 10000):
                return rec
        k = len(self.aero)
        xs = [z3.Real("aero_x!%d_%d" % (k, i)) for i in range(3)]
        rec = {"alpha": SR(abv[0]), "beta": SR(abv[1]), "V": SR(abv[2]), "abv": abv, "xs": xs, "x": [SR(v) for v in xs]}
        ctx().assumptions.append(abv[2] * abv[2] == xs[0] * xs[0] + xs[1] * xs[1] + xs[2] * xs[2])
        self.aero.append(rec)
        return rec

    # ---- LLsolve ---------------------------------------------------------------------------------
    def scene_state(self, scene):
        """physical state the lifting-line solve depends on, as stored in the scene *now*.
        key_mode 'earth': Earth-fixed velocity and wind separately.  'air': only their difference (C11, justified by the kernel lemma)."""
        st = []
        air = self.key_mode == "air"
        for ap in scene._airplane_objects:
            if not air:
                st += _flat(ap.v)
            st += _flat(ap.w)
            for seg in ap.segments:
                st += _flat(seg._delta_flap) + _flat(seg._cp_c_f)
        names = ["_PC", "_dl", "_r_CG", "_u_a", "_u_n", "_u_s", "_rho", "_nu", "_a"]
        if not air:
            names.append("_v_wind")
        for name in names:
            st += _flat(getattr(scene, name))
        if air:
            for ap, sl in zip(scene._airplane_objects, scene._airplane_slices):
                st += _flat(scene._v_wind[sl] - ap.v)
        for name in ("_P0", "_P1", "_P0_joint", "_P1_joint"):
            st += _flat(getattr(scene, name))
        if getattr(self, "extended_state", False):
            # what the kernel actually reads between vortices and control points (incl. the cross-aircraft blocks)
            for name in ("_r_0", "_r_1", "_r_0_joint", "_r_1_joint", "_r_0_mag", "_r_1_mag", "_r_0_joint_mag", "_r_1_joint_mag"):
                st += _flat(getattr(scene, name))
        # per-aircraft quantities used for the reference triad / coefficients
        for ap in scene._airplane_objects:
            st += _flat(ap.q) + _flat(ap.p_bar)
            if air:
                st += _flat(scene._get_wind(ap.p_bar) - ap.v)
            else:
                st += _flat(scene._get_wind(ap.p_bar))
            st += _flat(scene._get_density(ap.p_bar))
        return [simp(zexpr(v)) for v in st]

    def solve(self, scene, kwargs):
        nd = kwargs.get("non_dimensional", True)
        d = kwargs.get("dimensional", True)
        frames = [f for f, on in (("body", kwargs.get("body_frame", True)), ("stab", kwargs.get("stab_frame", False)),
                                  ("wind", kwargs.get("wind_frame", True))) if on]
        sig = (bool(nd), bool(d), tuple(frames), tuple(ap.name for ap in scene._airplane_objects))
        state = self.scene_state(scene)
        ids = tuple(e.get_id() for e in state)
        base = None
        for c in self.calls:
            if c["ids"] == ids and c["names"] == sig[3]:
                base = c
                break
        if base is None and self.prove_equal:
            # "two calls with provably equal state return equal results": try the solver on the differing components of the
            # syntactically closest earlier calls
            cands = []
            for c in self.calls:
                if c["names"] != sig[3] or len(c["ids"]) != len(ids) or c["k"] != c["idx"]:
                    continue
                nd = sum(1 for x, y in zip(ids, c["ids"]) if x != y)
                if nd <= self.max_diff:
                    cands.append((nd, c["idx"], c))
            cands.sort(key=lambda t: (t[0], -t[1]))
            facts = None
            for nd, _, c in cands[:self.max_candidates]:
                diff = [(x, y) for x, y in zip(state, c["state"]) if x.get_id() != y.get_id()]
                if facts is None:
                    facts = list(ctx().assumptions) + list(ctx().pc)
                from symx.rel import cone_defs
                cd = cone_defs(ctx(), [d for pair in diff[:40] for d in pair])
                if not smt.entails(facts + cd, diff[0][0] == diff[0][1], 5000):
                    continue
                if len(diff) > 40:
                    cd = cone_defs(ctx(), [d for pair in diff for d in pair])
                if smt.entails(facts + cd, z3.And(*[x == y for x, y in diff]), 30000):
                    base = c
                    break
        k = len(self.calls)
        out = {}
        for ap in scene._airplane_objects:
            tot = {}
            for kind, on in (("nd", nd), ("d", d)):
                if not on:
                    continue
                for f in frames:
                    for key in FRAME_KEYS[(kind, f)]:
                        if base is not None:
                            tot[key] = SR(z3.Real("F!%d_%s_%s" % (base["k"], ap.name, key)))
                        else:
                            tot[key] = SR(z3.Real("F!%d_%s_%s" % (k, ap.name, key)))
            out[ap.name] = {"total": tot, "inviscid": {}, "viscous": {}}
        rec = {"k": base["k"] if base is not None else k, "ids": ids, "state": state, "sig": sig, "names": sig[3], "out": out,
               "scene": id(scene), "kwargs": dict(kwargs), "idx": k}
        self.calls.append(rec)
        return out

    def congruence(self, calls_a, calls_b):
        """Ackermann facts between two groups of calls (only where the symbols differ)"""
        facts = []
        for a in calls_a:
            for b in calls_b:
                if a["k"] == b["k"] or a["names"] != b["names"] or len(a["state"]) != len(b["state"]):
                    continue
                prem = z3.And(*[x == y for x, y in zip(a["state"], b["state"]) if x.get_id() != y.get_id()])
                concl = []
                for nm in a["names"]:
                    for key in FRAME_KEYS_ALL:
                        concl.append(z3.Real("F!%d_%s_%s" % (a["k"], nm, key)) == z3.Real("F!%d_%s_%s" % (b["k"], nm, key)))
                facts.append(z3.Implies(prem, z3.And(*concl)))
        return facts


FRAME_KEYS_ALL = [k for v in FRAME_KEYS.values() for k in v]


def install_stubs(scene, world):
    """LLsolve on the scene, AeroADT on each of its airplanes (instance-level; the classes in /repo are untouched)."""
    from machupX.helpers import quat_trans, quat_inv_trans

    def solve_forces(**kwargs):
        if scene._num_aircraft == 0:
            raise RuntimeError("There are no aircraft in this scene. No calculations can be performed.")
        scene._FM = world.solve(scene, kwargs)
        fn = kwargs.get("filename", None)
        if fn is not None:
            scene._dumped = getattr(scene, "_dumped", []) + [(fn, scene._FM)]
        scene._solved = True
        return scene._FM
    scene.solve_forces = solve_forces
    for ap in scene._airplane_objects:
        install_aero_adt(ap, world)


def install_aero_adt(ap, world):
    from machupX.helpers import quat_trans, quat_inv_trans
    if getattr(ap, "_adt", False):
        return
    ap._adt = True
    ap._aero_calls = []

    def get_aerodynamic_state(v_wind=[0.0, 0.0, 0.0]):
        v = quat_trans(ap.q, ap.v - facade.wrap(np.asarray(v_wind, dtype=object)))       # airplane.py:259 verbatim
        rec = world.aero_get(list(v), ctx().all_facts())
        ap._aero_calls.append(("get", v_wind, rec))
        return rec["alpha"], rec["beta"], rec["V"]

    def set_aerodynamic_state(**kwargs):
        v_wind = kwargs.get("v_wind", [0.0, 0.0, 0.0])
        cur = get_aerodynamic_state(v_wind=v_wind)
        alpha = kwargs.get("alpha", cur[0])
        beta = kwargs.get("beta", cur[1])
        velocity = kwargs.get("velocity", cur[2])
        rec = world.aero_set(alpha, beta, velocity, ctx().all_facts())
        v_inf_b = facade.wrap(np.array(rec["x"], dtype=object))
        ap.v = facade.wrap(np.asarray(v_wind, dtype=object)) + quat_inv_trans(ap.q, v_inf_b)   # airplane.py:316 verbatim
        ap._aero_calls.append(("set", kwargs, rec))

    ap.get_aerodynamic_state = get_aerodynamic_state
    ap.set_aerodynamic_state = set_aerodynamic_state


def base_state_syms(tag="", with_rates=True):
    """symbolic base state: body velocity, unit quaternion, position, body rates"""
    st = {"velocity": [sym("%su" % tag), sym("%sv" % tag), sym("%sw" % tag)],
          "orientation": [sym("%sq%d" % (tag, i)) for i in range(4)],
          "position": [sym("%spx" % tag), sym("%spy" % tag), sym("%spz" % tag)]}
    if with_rates:
        st["angular_rates"] = [sym("%swp" % tag), sym("%swq" % tag), sym("%swr" % tag)]
    return st


def base_state_assumptions(tag=""):
    q = [z3.Real("%sq%d" % (tag, i)) for i in range(4)]
    return [sum(x * x for x in q) == 1]


def apply_state_direct(scene, name, st):
    """put a symbolic state on an aircraft exactly as Airplane.set_state would for a unit quaternion and a body-fixed velocity
    vector (without the |q| normalisation atoms), then refresh the geometry caches with the real code."""
    from machupX.helpers import quat_inv_trans
    ap = scene._airplanes[name]
    ap.q = facade.wrap(np.array(st["orientation"], dtype=object))
    ap.p_bar = facade.wrap(np.array(st["position"], dtype=object))
    ap.v = quat_inv_trans(ap.q, facade.wrap(np.array(st["velocity"], dtype=object)))
    ap.w = facade.wrap(np.array(st.get("angular_rates", [0.0, 0.0, 0.0]), dtype=object))
    ap.angular_rate_frame = "body"
    scene._perform_geometry_and_atmos_calcs()


def snapshot(scene):
    """base state of every aircraft + flags, as z3 terms (for pre/post comparisons)"""
    out = {}
    for name, ap in scene._airplanes.items():
        d = {"v": [simp(zexpr(x)) for x in _flat(ap.v)], "w": [simp(zexpr(x)) for x in _flat(ap.w)],
             "q": [simp(zexpr(x)) for x in _flat(ap.q)], "p": [simp(zexpr(x)) for x in _flat(ap.p_bar)],
             "controls": {k: simp(zexpr(SR(v))) for k, v in ap.current_control_state.items()},
             "flaps": [simp(zexpr(x)) for seg in ap.segments for x in _flat(seg._delta_flap)]}
        out[name] = d
    return out


def snap_equal(a, b):
    terms = []
    for name in a:
        for k in ("v", "w", "q", "p", "flaps"):
            terms += [x == y for x, y in zip(a[name][k], b[name][k])]
            if len(a[name][k]) != len(b[name][k]):
                terms.append(z3.BoolVal(False))
        if set(a[name]["controls"]) != set(b[name]["controls"]):
            terms.append(z3.BoolVal(False))
        else:
            terms += [a[name]["controls"][k] == b[name]["controls"][k] for k in a[name]["controls"]]
    return z3.And(*terms) if terms else z3.BoolVal(True)


# ---- class-level patching (module-global injection; /repo sources are untouched) ------------------------------
_patched = {}


class Env:
    """current World for the class-level stubs"""
    world = None


def patch_classes():
    import machupX.scene as SC
    import machupX.airplane as AP
    from machupX.helpers import quat_trans, quat_inv_trans
    if _patched:
        return
    _patched["solve_forces"] = SC.Scene.solve_forces
    _patched["get"] = AP.Airplane.get_aerodynamic_state
    _patched["set"] = AP.Airplane.set_aerodynamic_state

    def solve_forces(self, **kwargs):
        if self._num_aircraft == 0:
            raise RuntimeError("There are no aircraft in this scene. No calculations can be performed.")
        self._FM = Env.world.solve(self, kwargs)
        k = Env.world.calls[-1]["k"]
        N = self._N
        # per-section results of the (stubbed) solve: fresh symbols tied to the call, so that distributions() can run
        for nm, width in (("_dF_inv", 3), ("_dF_visc", 3), ("_dM_inv", 3), ("_dM_visc", 3), ("_v_i", 3), ("_alpha", 0), ("_CL", 0), ("_Cm", 0),
                          ("_CD", 0), ("_gamma", 0), ("_Re", 0), ("_M", 0), ("_redim_full", 0), ("_redim_in_plane", 0), ("_aL0", 0)):
            if width:
                arr = np.array([[sym("S!%d%s_%d_%d" % (k, nm, i, j)) for j in range(width)] for i in range(N)], dtype=object)
            else:
                arr = np.array([sym("S!%d%s_%d" % (k, nm, i)) for i in range(N)], dtype=object)
            setattr(self, nm, facade.wrap(arr))
        fn = kwargs.get("filename", None)
        if fn is not None:
            Env.world.dumped.append((fn, self._FM))
        self._solved = True
        self._solved_call = Env.world.calls[-1]
        return self._FM

    def get_aerodynamic_state(self, v_wind=[0.0, 0.0, 0.0]):
        v = quat_trans(self.q, self.v - facade.wrap(np.asarray(v_wind, dtype=object)))       # airplane.py:259 verbatim
        rec = Env.world.aero_get(list(v), ctx().all_facts())
        Env.world.aero_calls.append((id(self), "get", v_wind, rec))
        return rec["alpha"], rec["beta"], rec["V"]

    def set_aerodynamic_state(self, **kwargs):
        v_wind = kwargs.get("v_wind", [0.0, 0.0, 0.0])
        cur = self.get_aerodynamic_state(v_wind=v_wind)
        alpha = kwargs.get("alpha", cur[0])
        beta = kwargs.get("beta", cur[1])
        velocity = kwargs.get("velocity", cur[2])
        rec = Env.world.aero_set(alpha, beta, velocity, ctx().all_facts())
        v_inf_b = facade.wrap(np.array(rec["x"], dtype=object))
        self.v = facade.wrap(np.asarray(v_wind, dtype=object)) + quat_inv_trans(self.q, v_inf_b)   # airplane.py:316 verbatim
        Env.world.aero_calls.append((id(self), "set", kwargs, rec))

    SC.Scene.solve_forces = solve_forces
    AP.Airplane.get_aerodynamic_state = get_aerodynamic_state
    AP.Airplane.set_aerodynamic_state = set_aerodynamic_state
    # euler_to_quat: real function + proven lemma |q| = 1 (from sin^2+cos^2 = 1 of the half-angle atoms); the proven
    # sum-of-squares term is registered so that the normalisation in Airplane.set_state simplifies to q itself
    import machupX.helpers as H
    _patched["e2q"] = (H.euler_to_quat, SC.euler_to_quat, AP.euler_to_quat)
    real_e2q = H.euler_to_quat

    def euler_to_quat(E):
        q = real_e2q(E)
        from symx.values import is_sym
        if is_sym(q):
            c = ctx()
            kexprs = [simp(zexpr(comp)) for comp in q]          # kept alive in the cache: z3 re-uses the ids of freed terms
            key = tuple(e_.get_id() for e_ in kexprs)
            cache = c.__dict__.setdefault("_e2q_cache", {})
            if key in cache:
                return cache[key][1]
            e = None
            for comp in q:
                t = zexpr(comp) * zexpr(comp)
                e = t if e is None else e + t
            from symx.rel import cone_defs
            if smt.entails(cone_defs(c, [e]), e == 1, 20000):
                # cut point: the proven lemma |q| = 1 is all later reasoning needs; name the components (definitions kept for the record)
                k = len(cache)
                names = [z3.Real("Qe!%d_%d" % (k, i)) for i in range(4)]
                c.__dict__.setdefault("cut_defs", []).extend([n == zexpr(comp) for n, comp in zip(names, q)])
                qn = facade.wrap(np.array([SR(n) for n in names], dtype=object))
                c.declare_unit([SR(n) for n in names])
                c.notes.append("cut: euler_to_quat result named Qe!%d (unit norm proven from sin^2+cos^2=1)" % k)
                cache[key] = (kexprs, qn)
                return qn
            cache[key] = (kexprs, q)
        return q
    H.euler_to_quat = euler_to_quat
    SC.euler_to_quat = euler_to_quat
    AP.euler_to_quat = euler_to_quat


def unpatch_classes():
    import machupX.scene as SC
    import machupX.airplane as AP
    if not _patched:
        return
    SC.Scene.solve_forces = _patched.pop("solve_forces")
    AP.Airplane.get_aerodynamic_state = _patched.pop("get")
    AP.Airplane.set_aerodynamic_state = _patched.pop("set")
    import machupX.helpers as H
    H.euler_to_quat, SC.euler_to_quat, AP.euler_to_quat = _patched.pop("e2q")


class real_classes:
    """context manager for replays: facade and class stubs removed"""
    def __enter__(self):
        self._p = bool(_patched)
        unpatch_classes()
        self._f = facade.real()
        self._f.__enter__()
        return self

    def __exit__(self, *a):
        self._f.__exit__(*a)
        if self._p:
            patch_classes()
        return False


def new_world():
    w = World()
    w.dumped = []
    w.aero_calls = []
    Env.world = w
    return w


def sliced_facts(c, goal, extra=()):
    """assumptions + the path-condition literals that share a variable with the goal + cone-of-influence definitions of
    everything selected.  Dropping facts is sound for proving (fewer premises)."""
    from symx.rel import cone_defs, vars_of
    gv = set(vars_of(goal).keys())
    for d in cone_defs(c, [goal]):
        gv |= set(vars_of(d).keys())
    lits = [lit for lit in c.pc if gv & set(vars_of(lit).keys())]
    small = [a for a in c.assumptions if len(vars_of(a)) <= 12]
    return small + lits + cone_defs(c, [goal] + lits + small)
