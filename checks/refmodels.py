"""Reference models of the analyses, written from the documentation (docstrings of scene.py, docs/source/*.md) and the
property statements, using only the public API on *freshly constructed scenes*.  They run unchanged in two modes:
symbolically (facade + LLsolve/AeroADT stubs) and concretely on the real code (replay)."""
import copy
import math

import numpy as np

FRAME_TAGS = {"body": ["Cx", "Cy", "Cz", "Cl", "Cm", "Cn"],
              "stab": ["Cx_s", "Cy_s", "Cz_s", "Cl_s", "Cm_s", "Cn_s"],
              "wind": ["CL", "CD", "CS", "Cl_w", "Cm_w", "Cn_w"]}


class Lab:
    """Builds fresh scenes.  spec = {"scene": scene_input_dict (without aircraft), "aircraft": {name: {"input": dict, "state": dict, "controls": dict}}}"""

    def __init__(self, spec, symbolic):
        self.spec = spec
        self.symbolic = symbolic
        if symbolic:
            from symx import facade
            self.np = facade.NP
        else:
            self.np = np

    def fresh(self, overrides=None):
        import machupX as MX
        overrides = overrides or {}
        scene = MX.Scene(copy.deepcopy(self.spec["scene"]) if not self.symbolic else _copy_keep_sym(self.spec["scene"]))
        for name, a in self.spec["aircraft"].items():
            o = overrides.get(name, {})
            st = o.get("state", a["state"])
            cs = o.get("controls", a.get("controls", {}))
            scene.add_aircraft(name, copy.deepcopy(a["input"]), state=_copy_keep_sym(st), control_state=_copy_keep_sym(cs))
        return scene

    def F(self, overrides=None, **kw):
        return self.fresh(overrides).solve_forces(**kw)

    def radians(self, x):
        return self.np.radians(x)

    def degrees(self, x):
        return self.np.degrees(x)


def _copy_keep_sym(d):
    if isinstance(d, dict):
        return {k: _copy_keep_sym(v) for k, v in d.items()}
    if isinstance(d, list):
        return [_copy_keep_sym(v) for v in d]
    return d


def frames_of(kw):
    return [f for f, on in (("body", kw.get("body_frame", True)), ("stab", kw.get("stab_frame", False)), ("wind", kw.get("wind_frame", True))) if on]


def aero_base(lab, name):
    """(alpha, beta, V) in degrees of aircraft `name` in the base state, relative to the air mass at its position"""
    sc = lab.fresh()
    ap = sc._airplanes[name]
    return ap.get_aerodynamic_state(v_wind=sc._get_wind(ap.p_bar)), sc


def state_with_aero(base_state, alpha, beta, V):
    st = {k: v for k, v in base_state.items() if k not in ("velocity", "alpha", "beta")}
    st["velocity"] = V
    st["alpha"] = alpha
    st["beta"] = beta
    return st


def ref_stability(lab, name, dtheta, kw):
    """central differences in alpha and beta (per radian) at fixed airspeed, everything else held fixed"""
    (a0, b0, V0), sc0 = aero_base(lab, name)
    base = lab.spec["aircraft"][name]["state"]
    solve_kw = {k: v for k, v in kw.items() if k in ("body_frame", "stab_frame", "wind_frame")}

    def F(a, b):
        return lab.F({name: {"state": state_with_aero(base, a, b, V0)}}, dimensional=False, **solve_kw)[name]["total"]
    Fa_p, Fa_m = F(a0 + dtheta, b0), F(a0 - dtheta, b0)
    Fb_p, Fb_m = F(a0, b0 + dtheta), F(a0, b0 - dtheta)
    h = lab.radians(dtheta)
    out = {}
    for f in frames_of(kw):
        for K in FRAME_TAGS[f]:
            out[K + ",a"] = (Fa_p[K] - Fa_m[K]) / (2 * h)
            out[K + ",b"] = (Fb_p[K] - Fb_m[K]) / (2 * h)
    if "wind" in frames_of(kw):
        out["%_static_margin"] = -out["Cm_w,a"] / out["CL,a"] * 100.0
    return out


def rate_frame_rotation(sc, name):
    """unit perturbation directions (rows) of roll, pitch, yaw rate expressed in body axes, for the frame the rates were given in"""
    from machupX.helpers import quat_inv_trans
    ap = sc._airplanes[name]
    eye = [np.array([1.0, 0.0, 0.0]), np.array([0.0, 1.0, 0.0]), np.array([0.0, 0.0, 1.0])]
    fr = ap.angular_rate_frame
    if fr == "body":
        return eye
    q = ap.q_to_stab if fr == "stab" else ap.q_to_wind
    return [quat_inv_trans(q, e) for e in eye]


def ref_damping(lab, name, dtheta_dot, kw):
    """central differences in roll, pitch and yaw rate (in the frame the rates were given), times 2V/b, 2V/c, 2V/b"""
    (a0, b0, V0), sc0 = aero_base(lab, name)
    ap0 = sc0._airplanes[name]
    S, c_ref, b_ref = sc0.get_aircraft_reference_geometry(aircraft=name)
    dirs = rate_frame_rotation(sc0, name)
    w0 = ap0.w
    base = lab.spec["aircraft"][name]["state"]
    solve_kw = {k: v for k, v in kw.items() if k in ("body_frame", "stab_frame", "wind_frame")}

    def F(w_body):
        # a fresh scene in the base state whose body-fixed angular velocity is w_body
        sc = lab.fresh()
        sc._airplanes[name].w = w_body
        return sc.solve_forces(dimensional=False, **solve_kw)[name]["total"]
    out = {}
    for tag, e, norm in (("pbar", dirs[0], 2 * V0 / b_ref), ("qbar", dirs[1], 2 * V0 / c_ref), ("rbar", dirs[2], 2 * V0 / b_ref)):
        Fp, Fm = F(w0 + e * dtheta_dot), F(w0 - e * dtheta_dot)
        for f in frames_of(kw):
            for K in FRAME_TAGS[f]:
                out[K + "," + tag] = (Fp[K] - Fm[K]) / (2 * dtheta_dot) * norm
    return out


def ref_control(lab, name, dtheta, kw):
    """central differences in each control input (degrees in, per radian out), other controls held fixed"""
    sc0 = lab.fresh()
    ap0 = sc0._airplanes[name]
    base_cs = dict(ap0.current_control_state)
    solve_kw = {k: v for k, v in kw.items() if k in ("body_frame", "stab_frame", "wind_frame")}
    out = {}
    for cname in ap0.control_names:
        def F(val):
            cs = dict(base_cs)
            cs[cname] = val
            return lab.F({name: {"controls": cs}}, dimensional=False, **solve_kw)[name]["total"]
        Fp, Fm = F(base_cs[cname] + dtheta), F(base_cs[cname] - dtheta)
        h = lab.radians(dtheta)
        for f in frames_of(kw):
            for K in FRAME_TAGS[f]:
                out[K + ",d" + cname] = (Fp[K] - Fm[K]) / (2 * h)
    return out


def ref_state_derivs(lab, name, dx, dV, de, dw, kw):
    """central differences of the body-frame dimensional loads w.r.t. the 13-element state (docstring of state_derivatives)"""
    from machupX.helpers import quat_trans, quat_inv_trans, quat_mult, quat_conj
    sc0 = lab.fresh()
    ap0 = sc0._airplanes[name]
    v_e, w0, p0, q0 = ap0.get_state()
    # body-fixed velocity such that set_state reproduces the current Earth-fixed velocity
    v_b = quat_trans(q0, v_e)
    out = {}

    def F(p, vb, q, w):
        st = {"position": p, "velocity": vb, "orientation": q, "angular_rates": w}
        return lab.F({name: {"state": st}})[name]["total"]

    def put(tag, Fp, Fm, h):
        for K in ("Fx", "Fy", "Fz", "Mx", "My", "Mz"):
            out["d%s,d%s" % (K, tag)] = (Fp[K] - Fm[K]) / (2 * h)

    def bump(vec, i, h):
        v = [vec[k] for k in range(len(vec))]
        v[i] = v[i] + h
        return v
    for i, tag in enumerate(("u", "v", "w")):
        put(tag, F(list(p0), bump(v_b, i, dV), list(q0), list(w0)), F(list(p0), bump(v_b, i, -dV), list(q0), list(w0)), dV)
    for i, tag in enumerate(("x_f", "y_f", "z_f")):
        put(tag, F(bump(p0, i, dx), list(v_b), list(q0), list(w0)), F(bump(p0, i, -dx), list(v_b), list(q0), list(w0)), dx)
    for i, tag in enumerate(("p", "q", "r")):
        put(tag, F(list(p0), list(v_b), list(q0), bump(w0, i, dw)), F(list(p0), list(v_b), list(q0), bump(w0, i, -dw)), dw)
    for i, tag in enumerate(("qx", "qy", "qz")):
        # small rotation dq about body axis i (vector part 0.5*de), Earth-fixed velocity held constant
        dq = lab.np.array([1.0, 0.0, 0.0, 0.0])
        dq[i + 1] = 0.5 * de
        dq = dq / lab.np.linalg.norm(dq)
        q_p = quat_mult(q0, dq)
        q_m = quat_mult(q0, quat_conj(dq))
        v_p = quat_trans(q_p, v_e)
        v_m = quat_trans(q_m, v_e)
        put(tag, F(list(p0), list(v_p), list(q_p), list(w0)), F(list(p0), list(v_m), list(q_m), list(w0)), de)
    return out
