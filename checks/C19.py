"""C19 -- inputs violating documented constraints are rejected, never silently computed.

For each documented constraint a valid configuration is made invalid; where the offending value ranges over an infinite domain
it is symbolic (grid-list entries, list lengths via enumeration up to 2N+3, numeric IDs, span fractions) and the real constructors run
symbolically: on *every* feasible path an exception must be raised before any results dictionary is returned.  Offending *strings*
("any other unit / side / solver / profile / frame name") are represented by a reserved witness string: the code under test only
compares such strings for equality / membership, so {each valid literal} + {one other string} is an exhaustive partition (stated
assumption; the string-typed constraint sites are listed in the evidence).
"""
import copy

import numpy as np
import z3

from symx import facade, smt
from symx.explore import explore
from symx.harness import Check, Finding, run_parallel
from symx.smt import Obligation
from symx.values import SR, SB, sym, zexpr, ctx, simp

from checks.families import family_G, AIRFOILS
from checks import analysis as AN

OTHER = "zz_other string"      # witness for "any string that is none of the valid literals"


def base_scene():
    return {"units": "English", "solver": {"type": "linear"}, "scene": {"atmosphere": {"rho": 0.0023769}}}


def base_state():
    return {"velocity": [100.0, 0.0, 5.0]}


def attempt(scene_in, airplane, state, control_state=None, then=None):
    """build + first solve; returns ('raised', ExcName) or ('returned', None)"""
    import machupX as MX
    if AN._patched:
        AN.new_world()
    try:
        sc = MX.Scene(scene_in)
        sc.add_aircraft("p", airplane, state=state, control_state=control_state or {})
        if then is not None:
            then(sc)
        fm = sc.solve_forces()
        return ("returned", None)
    except Exception as e:
        return ("raised", type(e).__name__)


def cases():
    """(label, thunk) -- each thunk runs the real code on an invalid configuration and returns attempt()'s verdict"""
    C = []

    def wing(**kw):
        d = family_G("g1", N=2)
        d["wings"]["main"].update(kw)
        return d

    def add(label, fn):
        C.append((label, fn))
    add("segment ID 0", lambda: attempt(base_scene(), wing(ID=0), base_state()))
    add("unknown side", lambda: attempt(base_scene(), wing(side=OTHER), base_state()))
    add("semispan and quarter_chord_locs both given", lambda: attempt(base_scene(), wing(quarter_chord_locs=[[0.0, 2.0, 0.0], [-0.5, 4.0, -0.2]]), base_state()))

    def no_span():
        d = wing()
        d["wings"]["main"].pop("semispan")
        return attempt(base_scene(), d, base_state())
    add("neither semispan nor quarter_chord_locs", no_span)

    def qc(**kw):
        d = wing(quarter_chord_locs=[[0.0, 2.0, 0.0], [-0.5, 4.0, -0.2]], **kw)
        d["wings"]["main"].pop("semispan")
        for k in ("sweep", "dihedral"):
            if k not in kw:
                d["wings"]["main"].pop(k, None)
        return attempt(base_scene(), d, base_state())
    add("sweep together with quarter_chord_locs", lambda: qc(sweep=sym("sw")))
    add("dihedral together with quarter_chord_locs", lambda: qc(dihedral=sym("dh")))
    add("undefined airfoil name", lambda: attempt(base_scene(), wing(airfoil=OTHER), base_state()))
    add("undefined airfoil name in a distribution", lambda: attempt(base_scene(), wing(airfoil=[[0.0, "a1"], [1.0, OTHER]]), base_state()))
    add("unrecognised unit string (scalar)", lambda: attempt(base_scene(), wing(semispan=[4.0, OTHER]), base_state()))
    add("unrecognised unit string (state)", lambda: attempt(base_scene(), wing(), {"velocity": [100.0, OTHER]}))
    add("unrecognised unit string (array column)", lambda: attempt(base_scene(), wing(chord=[[0.0, 1.0], [1.0, 0.5], ["-", OTHER]]), base_state()))
    add("unrecognised unit system", lambda: attempt(dict(base_scene(), units=OTHER), wing(), base_state()))
    add("unit system 'Metric'", lambda: attempt(dict(base_scene(), units="Metric"), wing(), base_state()))
    add("unknown grid distribution name", lambda: attempt(base_scene(), wing(grid={"N": 2, "distribution": OTHER}), base_state()))
    add("unknown solver type [real solve]", lambda: attempt(dict(base_scene(), solver={"type": OTHER}), wing(), base_state()))

    def parent():
        d = wing()
        d["wings"]["tail"] = {"ID": 2, "side": "both", "connect_to": {"ID": 7}, "semispan": 1.0, "airfoil": "a2", "grid": {"N": 2}}
        return attempt(base_scene(), d, base_state())
    add("unknown parent ID", parent)
    add("alpha together with a velocity vector", lambda: attempt(base_scene(), wing(), {"velocity": [100.0, 0.0, 5.0], "alpha": sym("al")}))
    add("beta together with a velocity vector", lambda: attempt(base_scene(), wing(), {"velocity": [100.0, 0.0, 5.0], "beta": sym("be")}))
    add("unknown angular-rate frame", lambda: attempt(base_scene(), wing(), {"velocity": 100.0, "alpha": 2.0, "angular_rates": [0.1, 0.0, 0.0], "angular_rate_frame": OTHER}))
    for key in ("rho", "viscosity", "speed_of_sound"):
        add("unknown atmosphere profile name (%s)" % key, lambda key=key: attempt({"units": "English", "scene": {"atmosphere": {key: OTHER}}}, wing(), base_state()))

    def flap(cf=None, defl=None):
        d = family_G("g5", N=2)
        cs = d["wings"]["main"]["control_surface"]
        if cf is not None:
            cs["chord_fraction"] = cf
        return attempt(base_scene(), d, base_state(), control_state=defl or {})
    add("flap-chord distribution not spanning the flap", lambda: flap(cf=[[sym("r0"), 0.2], [0.9, 0.3]]))
    add("deflection distribution not spanning the flap", lambda: flap(defl={"aileron": facade.wrap(np.array([[0.4, 1.0], [sym("t1"), 2.0]], dtype=object))}))

    def no_weight():
        d = wing(); d.pop("weight"); return attempt(base_scene(), d, base_state())
    add("missing weight", no_weight)
    add("missing velocity", lambda: attempt(base_scene(), wing(), {}))

    def no_main():
        d = wing(is_main=False); d.pop("reference"); return attempt(base_scene(), d, base_state())
    add("no main wing without explicit reference values", no_main)
    add("wrong output-file extension (distributions)", lambda: attempt(base_scene(), wing(), base_state(), then=lambda sc: sc.distributions(filename="out" + OTHER)))
    add("wrong output-file extension (stl)", lambda: attempt(base_scene(), wing(), base_state(), then=lambda sc: sc.export_stl(filename="out" + OTHER)))
    add("unknown aircraft in set_aircraft_state", lambda: attempt(base_scene(), wing(), base_state(), then=lambda sc: sc.set_aircraft_state(base_state(), aircraft=OTHER)))
    add("unknown aircraft in set_aircraft_control_state", lambda: attempt(base_scene(), wing(), base_state(), then=lambda sc: sc.set_aircraft_control_state({}, aircraft=OTHER)))
    add("unknown aircraft in remove_aircraft", lambda: attempt(base_scene(), wing(), base_state(), then=lambda sc: sc.remove_aircraft(OTHER)))
    add("undefined pitch control in pitch_trim", lambda: attempt(base_scene(), wing(), base_state(), then=lambda sc: sc.pitch_trim(pitch_control=OTHER)))
    add("undefined pitch control in pitch_trim_using_orientation", lambda: attempt(base_scene(), wing(), base_state(), then=lambda sc: sc.pitch_trim_using_orientation(pitch_control=OTHER)))

    def unnamed(meth):
        def f():
            import machupX as MX
            if AN._patched:
                AN.new_world()
            try:
                sc = MX.Scene(base_scene())
                sc.add_aircraft("a", wing(), state=base_state())
                sc.add_aircraft("b", wing(), state={"velocity": [100.0, 0.0, 5.0], "position": [30.0, 0.0, 0.0]})
                getattr(sc, meth)({})
                return ("returned", None)
            except Exception as e:
                return ("raised", type(e).__name__)
        return f
    add("unnamed aircraft where several exist (set_aircraft_state)", unnamed("set_aircraft_state"))
    add("unnamed aircraft where several exist (set_aircraft_control_state)", unnamed("set_aircraft_control_state"))

    def empty():
        import machupX as MX
        try:
            MX.Scene(base_scene()).solve_forces()
            return ("returned", None)
        except Exception as e:
            return ("raised", type(e).__name__)
    add("solve on an empty scene", empty)
    add("scene input of a wrong type", lambda: attempt(3, wing(), base_state()))
    return C


def grid_case(N, kind):
    """explicit grid list: wrong length (every length 0..2N+3 except 2N+1), wrong end points (symbolic), not monotonic (symbolic entries)"""
    def fn():
        n = 2 * N + 1
        if kind.startswith("len"):
            L = int(kind[3:])
            lst = list(np.linspace(0.0, 1.0, L)) if L > 0 else []
        else:
            lst = [sym("g%d" % i) for i in range(n)]
            if kind == "monotonic":
                lst[0], lst[-1] = 0.0, 1.0
        d = family_G("g1", N=N)
        d["wings"]["main"]["grid"] = {"N": N, "distribution": lst, "reid_corrections": False}
        return attempt(base_scene(), d, base_state())
    return fn


def grid_assumptions(N, kind):
    n = 2 * N + 1
    g = [z3.Real("g%d" % i) for i in range(n)]
    if kind == "ends":
        return [z3.Or(g[0] != 0, g[-1] != 1)]
    if kind == "monotonic":
        full = [z3.RealVal(0)] + g[1:-1] + [z3.RealVal(1)]
        return [z3.Or(*[full[i] >= full[i + 1] for i in range(n - 1)])]
    return []


def harness_table(ck):
    import machupX  # noqa
    AN.patch_classes()      # the first solve is LLsolve: geometry / parsing errors are raised before it; nothing else is needed from it
    for label, fn in cases():
        if label.endswith("[real solve]"):
            # the constraint is only checked inside the real solve dispatch: run this (string-valued) case on the unstubbed code
            with AN.real_classes():
                verdict, en = fn()
            ck.add([Obligation("constraint: %s -> %s" % (label, "raises %s" % en if verdict == "raised" else "RETURNED LOADS"), [], z3.BoolVal(verdict == "raised"),
                               meta={"finding": (lambda ob, label=label: Finding("constraint", {"label": label}, ob.label, ob.model))})])
            continue
        from symx.values import _rv
        extra = [z3.Real("r0") != _rv(0.4), z3.Real("t1") != _rv(0.9)]     # (the doubles the valid configuration uses)
        res = explore(fn, assumptions=extra, max_paths=40)
        ck.add_paths(res)
        if not res:
            ck.inconc("constraint %s: no feasible path" % label)
        for p in res:
            lab = "constraint: %s path%s" % (label, "".join("1" if d else "0" for d in p.decisions))
            if not p.ok:
                # an exception escaped `attempt` (BaseException / Concretised): report
                ck.inconc("%s: %s %r" % (lab, p.kind, p.exc))
                continue
            verdict, en = p.value
            ob = Obligation(lab + (" -> raises %s" % en if verdict == "raised" else " -> RETURNED LOADS"), list(p.ctx.assumptions) + list(p.ctx.pc), z3.BoolVal(verdict == "raised"),
                            meta={"finding": (lambda ob, label=label: Finding("constraint", {"label": label}, ob.label, ob.model))})
            ck.add([ob])
    ck.sample({"harness": "constraint table", "constraints": len(cases())})


def harness_grid(ck, N):
    AN.patch_classes()
    kinds = ["len%d" % L for L in range(0, 2 * N + 4) if L != 2 * N + 1] + ["ends", "monotonic"]
    for kind in kinds:
        res = explore(grid_case(N, kind), assumptions=grid_assumptions(N, kind), max_paths=200)
        ck.add_paths(res)
        if not res:
            ck.inconc("grid list %s: no feasible path" % kind)
        for p in res:
            lab = "constraint: explicit grid list N=%d %s path%s" % (N, kind, "".join("1" if d else "0" for d in p.decisions))
            if not p.ok:
                ck.inconc("%s: %s %r" % (lab, p.kind, p.exc))
                continue
            verdict, en = p.value

            def mk(ob, N=N, kind=kind):
                vals = {}
                for k, x in (ob.model or {}).items():
                    try:
                        vals[k] = smt.frac(x)
                    except Exception:
                        pass
                return Finding("grid", {"N": N, "kind": kind, "vals": vals}, ob.label, ob.model)
            facts = list(p.ctx.assumptions) + list(p.ctx.pc)
            ck.add([Obligation(lab + (" -> raises %s" % en if verdict == "raised" else " -> RETURNED LOADS"), facts, z3.BoolVal(verdict == "raised"), meta={"finding": mk}),
                    Obligation(lab + " reach", facts, z3.BoolVal(True), witness=True)])
    ck.sample({"harness": "grid list", "N": N, "kinds": kinds})


# ---- replay -------------------------------------------------------------------------------------------------------
def replay_constraint(inp):
    from checks.analysis import real_classes
    with real_classes():
        for label, fn in cases():
            if label == inp["label"]:
                # numeric offenders are symbolic in the harness; here a concrete representative is substituted by the same thunk run concretely
                import symx.values as V
                saved = V.sym
                try:
                    import checks.C19 as me
                    me.sym = lambda name: 7.5
                    verdict, en = fn()
                finally:
                    me.sym = saved
                return {"reproduced": verdict == "returned", "key": "constraint not enforced: " + label, "observed": [verdict, en],
                        "what": "configuration violating '%s' was accepted and loads were returned" % label}
    return {"reproduced": False, "why": "unknown label"}


def replay_grid(inp):
    from checks.analysis import real_classes
    N, kind, vals = inp["N"], inp["kind"], inp.get("vals", {})
    n = 2 * N + 1
    with real_classes():
        if kind.startswith("len"):
            L = int(kind[3:])
            lst = list(np.linspace(0.0, 1.0, L)) if L > 0 else []
        else:
            lst = [float(vals.get("g%d" % i, i / (n - 1.0))) for i in range(n)]
            if kind == "monotonic":
                lst[0], lst[-1] = 0.0, 1.0
                full_ok = all(lst[i] < lst[i + 1] for i in range(n - 1))
                if full_ok:      # the model did not pin a violation: use a control point outside its section
                    lst[1], lst[2] = lst[2], lst[1]
        d = family_G("g1", N=N)
        d["wings"]["main"]["sweep"] = [[0.0, 0.0], [1.0, 30.0]]
        d["wings"]["main"]["grid"] = {"N": N, "distribution": lst, "reid_corrections": False}
        verdict, en = attempt(base_scene(), d, base_state())
    return {"reproduced": verdict == "returned", "key": "explicit grid list accepted: %s" % kind, "observed": {"list": lst, "verdict": verdict, "exception": en},
            "what": "explicit grid list %s (violating '%s') was accepted and loads were returned" % (lst, kind)}


REPLAYS = {"constraint": replay_constraint, "grid": replay_grid}


def main(tier, seed, only=None):
    ck = Check("C19", tier, seed, REPLAYS)
    facade.install()
    import machupX.helpers as H, machupX.wing_segment as WS, machupX.airplane as AP, machupX.scene as SC
    ck.encoded(H.convert_units, H.import_value, H.check_filepath, WS.WingSegment.__init__, WS.WingSegment._initialize_params, WS.WingSegment._initialize_getters, WS.WingSegment._initialize_airfoils,
               WS.WingSegment._setup_control_surface, WS.WingSegment.apply_control, WS.WingSegment._attach_wing_segment, AP.Airplane.add_wing_segment, AP.Airplane.set_state,
               AP.Airplane._check_reference_params, SC.Scene._load_params, SC.Scene._initialize_density_getter, SC.Scene.set_aircraft_state, SC.Scene.remove_aircraft, SC.Scene.solve_forces)
    ck.stub("the first solve is LLsolve (constraint checks happen while loading / before the solve); file existence is not involved in the listed constraints")
    ck.assume("offending strings: one reserved witness string stands for every string that is none of the valid literals (the sites only use ==, in, dict lookup on them)",
              "offending numbers (grid entries, span fractions, angles) are symbolic; list lengths are enumerated 0..2N+3")
    tasks = []
    if not only or "table" in only:
        tasks.append(("table", harness_table))
    if not only or "grid" in only:
        tasks.append(("grid N=2", lambda c: harness_grid(c, 2)))
        if tier == "thorough":
            tasks.append(("grid N=3", lambda c: harness_grid(c, 3)))
    run_parallel(ck, tasks)
    ck.bound(constraints=len(cases()), grid_lists="N = 2 (quick) / 3 (thorough): every wrong length up to 2N+3, arbitrary wrong end points, arbitrary non-monotonic interior")
    ck.rung("rung 1")
    return ck.finish()
