"""C17 -- atmosphere model and per-section atmospheric sampling.

H1  all paths of StandardAtmosphere.T/P/rho/mu/a/nu (SI and English, scalar and 1-element array query) with a
    symbolic altitude against a reference transcribed from the 1976 US Standard Atmosphere (pow/exp/sqrt atoms).
H2  Scene density / wind / viscosity / sound-speed getters for constant values and profile tables with symbolic
    table entries and symbolic query position: piecewise linear, reproduces nodes, uses altitude -z.
H3  _perform_geometry_and_atmos_calcs samples every getter at the Earth-fixed control points.
"""
import math

import numpy as np
import z3

from symx import facade, smt
from symx.explore import explore
from symx.harness import Check, Finding
from symx.rel import Aligner, cone_defs
from symx.smt import Obligation
from symx.values import SR, sym, zexpr, exact, ctx, Ctx

# ---- reference: 1976 US Standard Atmosphere (geopotential layers), written from the standard ------------
STD_H = [0.0, 11000.0, 20000.0, 32000.0, 47000.0, 51000.0, 71000.0, 84852.0]          # m'
STD_L = [-0.0065, 0.0, 0.001, 0.0028, 0.0, -0.0028, -0.002]                            # K/m'
STD_T = [288.15, 216.65, 216.65, 228.65, 270.65, 270.65, 214.65, 186.946]              # K
STD = dict(r0=6356766.0, g0=9.80665, M0=28.9644, Rs=8.31432e3, P0=1.01325e5, S=110.4, beta=1.458e-6, gamma=1.40)
FT = 0.3048
PA_TO_PSF = 0.3048 ** 2 / 4.4482216152605
KGM3_TO_SLUGFT3 = 0.3048 ** 4 / 4.4482216152605   # kg/m^3 = N s^2/m^4 -> lbf s^2/ft^4 = slug/ft^3
PAS_TO_PSFS = PA_TO_PSF


def ref_float(q, h, unit):
    """plain float reference (used for replay)"""
    Z = h * FT if unit == "English" else h
    H = STD["r0"] * Z / (STD["r0"] + Z)
    b = 0
    while b < 6 and H > STD_H[b + 1]:
        b += 1
    T = STD_T[b] + STD_L[b] * (H - STD_H[b])
    P = STD["P0"]
    for k in range(b + 1):
        Hl = min(H, STD_H[k + 1])
        if STD_L[k] == 0.0:
            P *= math.exp(-STD["g0"] * STD["M0"] * (Hl - STD_H[k]) / (STD["Rs"] * STD_T[k]))
        else:
            P *= (STD_T[k] / (STD_T[k] + STD_L[k] * (Hl - STD_H[k]))) ** (STD["g0"] * STD["M0"] / (STD["Rs"] * STD_L[k]))
    rho = P * STD["M0"] / (STD["Rs"] * T)
    mu = STD["beta"] * T ** 1.5 / (T + STD["S"])
    a = math.sqrt(STD["gamma"] * STD["Rs"] * T / STD["M0"])
    nu = mu / rho
    if unit == "English":
        return {"T": T * 9 / 5, "P": P * PA_TO_PSF, "rho": rho * KGM3_TO_SLUGFT3, "mu": mu * PAS_TO_PSFS, "a": a / FT, "nu": nu / FT ** 2}[q]
    return {"T": T, "P": P, "rho": rho, "mu": mu, "a": a, "nu": nu}[q]


def _layer_of(H):
    """symbolic layer selection by forking (reference side)"""
    b = 0
    while b < 6 and bool(H > STD_H[b + 1]):
        b += 1
    return b


def ref_sym_TP(atm, h, unit):
    """reference T [K] and P [Pa] on the *code's own constant tables* (checked separately against the standard),
    same natural evaluation order as the standard's formulas; h symbolic."""
    Z = h * FT if unit == "English" else h
    H = (atm._r_0 * Z) / (atm._r_0 + Z)
    b = _layer_of(H)
    Tb = [atm._T_0 + t + 273.15 for t in atm._T_M_b]
    T = Tb[b] + (Tb[b + 1] - Tb[b]) / (atm._H_b[b + 1] - atm._H_b[b]) * (H - atm._H_b[b])
    P = SR(atm._P_0)
    for k in range(b + 1):
        Hl = H if k == b else atm._H_b[k + 1]
        if abs(atm._L_M_b[k]) < 1e-6:
            P = P * facade.NP.exp((-atm._g_0_prime * atm._M_0 * (Hl - atm._H_b[k]) / (atm._R_star * Tb[k])))
        else:
            expo = (atm._g_0_prime * atm._M_0) / (atm._R_star * atm._L_M_b[k])
            P = P * (Tb[k] / (Tb[k] + atm._L_M_b[k] * (Hl - atm._H_b[k]))) ** expo
    return T, P, b


TOL = {"T": 1e-9, "P": 1e-9, "rho": 1e-9, "mu": 1e-9, "a": 1e-9, "nu": 1e-9}
UNIT_TOL = 1e-6   # the unit tables carry ~7 significant digits


def rel_close(x, y, tol):
    """|x-y| <= tol*|y| as a z3 term"""
    x, y = zexpr(x), zexpr(y)
    d = x - y
    ay = z3.If(y >= 0, y, -y)
    return z3.And(d <= tol * ay, -d <= tol * ay)


# ---- replay ------------------------------------------------------------------------------------------------
def replay_std(inp):
    with facade.real():
        import machupX.standard_atmosphere as SAT
        atm = SAT.StandardAtmosphere(inp["unit"])
        h = float(inp["h"])
        got = float(getattr(atm, inp["q"])(np.array([h]) if inp.get("array") else h))
        if inp.get("against") == "scalar":
            want = float(getattr(atm, inp["q"])(h))
        else:
            want = ref_float(inp["q"], h, inp["unit"])
    tol = max(inp.get("tol", 1e-6), 1e-6)
    bad = not (abs(got - want) <= tol * abs(want))
    Z = h * FT if inp["unit"] == "English" else h
    H = STD["r0"] * Z / (STD["r0"] + Z)
    layer = max(k for k in range(7) if H >= STD_H[k]) if H >= 0 else 0
    key = "StandardAtmosphere.%s layer%d" % (inp["q"], layer)
    return {"reproduced": bad, "key": key, "observed": {"got": got, "reference": want, "h": h, "unit": inp["unit"]},
            "what": "StandardAtmosphere(%s).%s(%g) = %.6g but the 1976 standard gives %.6g (geopotential layer %d)"
                    % (inp["unit"], inp["q"], h, got, want, layer)}


def replay_scene_getter(inp):
    with facade.real():
        import machupX as MX
        scene = MX.Scene({"units": inp["unit"], "scene": {"atmosphere": inp["atmos"]}})
        pos = np.array(inp["pos"], dtype=float)
        want = np.asarray(inp["want"], dtype=float)
        if inp.get("vectorised"):            # the getter evaluated at an array of positions (as the assembly does at all control points)
            pos = np.array([pos, pos, pos])
            want = np.array([want, want, want])
        got = np.asarray(getattr(scene, inp["getter"])(pos), dtype=float)
    bad = not np.allclose(got, want, rtol=1e-9, atol=1e-12)
    return {"reproduced": bool(bad), "key": "Scene.%s %s" % (inp["getter"], inp.get("case", "")),
            "observed": {"got": got.tolist(), "want": want.tolist()},
            "what": "%s(%s) with atmosphere %s returned %s, expected %s" % (inp["getter"], inp["pos"], inp["atmos"], got.tolist(), want.tolist())}


def replay_sampling(inp):
    with facade.real():
        import machupX as MX
        from checks.families import simple_airplane
        calls = []
        scene = MX.Scene({"units": "English", "scene": {"atmosphere": {"rho": 0.0023769}}})
        scene.add_aircraft("a", simple_airplane(), state={"position": inp["p"], "velocity": 100.0, "orientation": inp["E"]})
        PC = np.array(scene._PC, dtype=float)
        for nm in ("_get_density", "_get_viscosity", "_get_sos", "_get_wind"):
            orig = getattr(scene, nm)
            def rec(pos, _o=orig, _n=nm):
                calls.append((_n, np.array(pos, dtype=float)))
                return _o(pos)
            setattr(scene, nm, rec)
        scene._perform_geometry_and_atmos_calcs()
    bad = []
    for nm in ("_get_density", "_get_viscosity", "_get_sos", "_get_wind"):
        got = [c[1] for c in calls if c[0] == nm]
        if len(got) != 1 or got[0].shape != PC.shape or not np.allclose(got[0], scene._PC, rtol=1e-12, atol=1e-12):
            bad.append(nm)
    return {"reproduced": bool(bad), "key": "sampling " + ",".join(bad), "observed": {"bad": bad},
            "what": "atmospheric getters %s are not evaluated at the Earth-fixed control points" % bad}


REPLAYS = {"std": replay_std, "scene_getter": replay_scene_getter, "sampling": replay_sampling}


# ---- H1 ------------------------------------------------------------------------------------------------------
def h1(ck, tier):
    import machupX.standard_atmosphere as SAT
    ck.encoded(SAT.StandardAtmosphere.T, SAT.StandardAtmosphere.P, SAT.StandardAtmosphere.rho, SAT.StandardAtmosphere.mu,
               SAT.StandardAtmosphere.a, SAT.StandardAtmosphere.nu, SAT.StandardAtmosphere._geometric_to_geopotential)
    ck.rung("H1 standard atmosphere, all paths")
    # constants of the code vs the standard's tables (finite data, compared completely)
    for unit in ("SI", "English"):
        atm = SAT.StandardAtmosphere(unit)
        const_pairs = [("H_b", list(atm._H_b), STD_H), ("L_M_b", list(atm._L_M_b), STD_L),
                       ("T_b", [atm._T_0 + t + 273.15 for t in atm._T_M_b], STD_T),
                       ("r0", [atm._r_0], [STD["r0"]]), ("g0", [atm._g_0_prime], [STD["g0"]]), ("M0", [atm._M_0], [STD["M0"]]),
                       ("R*", [atm._R_star], [STD["Rs"]]), ("P0", [atm._P_0], [STD["P0"]]), ("S", [atm._S], [STD["S"]]),
                       ("beta", [atm._beta], [STD["beta"]]), ("gamma", [atm._gamma], [STD["gamma"]])]
        for nm, got, want in const_pairs:
            g = z3.And(*[rel_close(exact(float(a)), exact(float(b)), 1e-12) if b != 0 else zexpr(exact(float(a))) == 0 for a, b in zip(got, want)]) \
                if len(got) == len(want) else z3.BoolVal(False)
            ob = Obligation("H1 const %s %s" % (unit, nm), [], g)
            ob.meta["finding"] = lambda ob, unit=unit: Finding("std", {"unit": unit, "q": "P", "h": 5000.0 if unit == "SI" else 16000.0}, ob.label)
            ck.add([ob])

    for unit in ("SI", "English"):
        # geometric altitude whose geopotential height is the top of the 1976 tables (84 852 m'); the 0.05 m sliver up to
        # 86 000 m lies above the last table node and is outside the claim (the code clamps there)
        hmax = 85999.95 if unit == "SI" else 85999.95 / FT
        for arr in ((False, True) if tier == "thorough" or unit == "SI" else (False,)):
            for q in ("T", "P", "rho", "mu", "a", "nu"):
                def run(unit=unit, q=q, arr=arr, hconc=None):
                    atm = SAT.StandardAtmosphere(unit)
                    h = sym("h") if hconc is None else SR(hconc)
                    arg = facade.wrap(np.array([h], dtype=object)) if arr else h
                    got = getattr(atm, q)(arg)
                    got = SR(got.reshape(-1)[0]) if isinstance(got, np.ndarray) else SR(got)
                    c = ctx()
                    n_code = len(c.events)
                    out = {"got": got, "n_code": n_code}
                    if arr:
                        out["scalar"] = SR(getattr(atm, q)(h))
                        return out
                    T, P, b = ref_sym_TP(atm, h, unit)
                    out["layer"] = b
                    if q == "T":
                        out["want"] = T * 9.0 / 5.0 if unit == "English" else T
                        out["wtol"] = TOL[q]
                    elif q == "P":
                        out["want"] = P * PA_TO_PSF if unit == "English" else P
                        out["wtol"] = UNIT_TOL if unit == "English" else TOL[q]
                    else:
                        # compositional: checked against the code's own T and P (verified above for the same altitude)
                        Tc, Pc = SR(atm.T(h)), SR(atm.P(h))
                        if unit == "English":
                            Tc = Tc * 5.0 / 9.0
                            Pc = Pc / PA_TO_PSF
                        rho = Pc * atm._M_0 / (atm._R_star * Tc)
                        mu = atm._beta * (Tc * facade.NP.sqrt(Tc)) / (Tc + atm._S)
                        a = facade.NP.sqrt(atm._gamma * atm._R_star * Tc / atm._M_0)
                        if unit == "English":
                            out["want"] = {"rho": rho * KGM3_TO_SLUGFT3, "mu": mu * PAS_TO_PSFS, "a": a / FT, "nu": (mu / rho) / FT ** 2}[q]
                            out["wtol"] = 3 * UNIT_TOL
                        else:
                            out["want"] = {"rho": rho, "mu": mu, "a": a, "nu": mu / rho}[q]
                            out["wtol"] = TOL[q]
                    return out

                hv = z3.Real("h")
                res = explore(run, assumptions=[hv > 0, hv <= hmax], max_paths=60)
                ck.add_paths(res)
                # the two end points of the range, concretely through the same harness (h = 0 makes pow(1, e) a constant)
                for hc in (0.0, hmax):
                    try:
                        from symx.explore import run_single
                        pv = run_single(lambda: run(hconc=hc)).value
                        if arr:
                            okc = float(pv["got"]) == float(pv["scalar"])
                        else:
                            okc = abs(float(pv["got"]) - float(pv["want"])) <= pv["wtol"] * abs(float(pv["want"]))
                    except Exception as e:
                        okc = False
                    ob = Obligation("H1 %s %s %s endpoint h=%g" % (unit, q, "array" if arr else "scalar", hc), [], z3.BoolVal(bool(okc)))
                    ob.meta["finding"] = (lambda ob, hc=hc, unit=unit, q=q, arr=arr: Finding("std", {"unit": unit, "q": q, "h": hc, "array": arr, "tol": 1e-6, "against": "scalar" if arr else None}, ob.label))
                    ck.add([ob])
                for p in res:
                    lab = "H1 %s %s %s path%s" % (unit, q, "array" if arr else "scalar", "".join("1" if d else "0" for d in p.decisions))
                    if not p.ok:
                        # an exception inside the declared range is a violation candidate
                        ob = Obligation(lab + " raises " + type(p.exc).__name__, p.facts(), z3.BoolVal(False))
                        ob.meta["finding"] = _mk_std_finding(unit, q, arr, 1e-6)
                        ck.add([ob])
                        continue
                    v = p.value
                    c = p.ctx
                    facts = p.facts()
                    if arr:
                        goal = zexpr(v["got"]) == zexpr(v["scalar"])
                        ob = Obligation(lab + " array==scalar", facts, goal)
                        ob.meta["finding"] = _mk_std_finding(unit, q, True, 1e-12, against="scalar")
                        ck.add([ob])
                        continue
                    al = Aligner(c, facts=facts, timeout_ms=5000)
                    al.search(c.events[v["n_code"]:], c.events[:v["n_code"]], by_site=False)
                    ck.aligned += al.aligned
                    goal = rel_close(v["got"], v["want"], v["wtol"])
                    ob = Obligation(lab, al.facts, goal, meta={"layer": v["layer"]})
                    ob.meta["finding"] = _mk_std_finding(unit, q, False, v["wtol"])
                    ck.add([ob])
                    # reachability witness + canary per path
                    ck.add([Obligation(lab + " reach", facts, z3.BoolVal(True), witness=True)])
                    ck.add([Obligation(lab + " canary", al.facts, zexpr(v["got"]) == zexpr(v["want"]) * 1.01 + 1, canary=True)])
                    if len(ck.samples) < 3:
                        ck.sample({"harness": "H1", "unit": unit, "quantity": q, "path": p.decisions, "layer": v["layer"],
                                   "code_value": str(v["got"])[:300], "obligation": "rel_close(code, reference, %g)" % v["wtol"]})
    ck.bound(H1="altitude symbolic over (0, 85999.95 m] (geopotential 0..84852 m', the extent of the 1976 tables) plus the concrete end points; both unit systems; scalar and 1-element array queries")
    ck.out_of_claim("the 0.05 m sliver 85999.95 m < h <= 86000 m above the last table node")


def _mk_std_finding(unit, q, arr, tol, against=None):
    def mk(ob):
        h = None
        if ob.model and "h" in ob.model:
            try:
                h = smt.frac(ob.model["h"])
            except Exception:
                h = None
        if h is None:
            h = 80000.0 if unit == "SI" else 80000.0 / FT
        return Finding("std", {"unit": unit, "q": q, "h": h, "array": arr, "tol": tol, "against": against}, ob.label, ob.model)
    return mk


# ---- H2 ------------------------------------------------------------------------------------------------------
def h2(ck, tier):
    import machupX.scene as SC
    ck.encoded(SC.Scene._initialize_density_getter, SC.Scene._initialize_wind_getter, SC.Scene._initialize_viscosity_getter,
               SC.Scene._initialize_sos_getter)
    ck.rung("H2 scene getters: constants and profile tables")
    import machupX as MX
    nrows = 3

    def table(prefix, ncol):
        hs = [sym("%s_h%d" % (prefix, i)) for i in range(nrows)]
        rows = []
        for i in range(nrows):
            rows.append([hs[i]] + [sym("%s_v%d_%d" % (prefix, i, k)) for k in range(ncol)])
        return hs, rows

    def order_assumptions(prefix):
        return [z3.Real("%s_h%d" % (prefix, i)) < z3.Real("%s_h%d" % (prefix, i + 1)) for i in range(nrows - 1)]

    pos = [sym("px"), sym("py"), sym("pz")]

    def ref_interp(hs, vals, alt):
        # documented behaviour: linear interpolation in altitude, clamped at the ends (numpy.interp semantics)
        if bool(alt <= hs[0]):
            return vals[0]
        if bool(alt >= hs[-1]):
            return vals[-1]
        for j in range(len(hs) - 1):
            if bool(alt < hs[j + 1]) or j == len(hs) - 2:
                t = (alt - hs[j]) / (hs[j + 1] - hs[j])
                return vals[j] + t * (vals[j + 1] - vals[j])

    # density profile ------------------------------------------------------------------------------------
    def run_rho():
        hs, rows = table("r", 1)
        scene = MX.Scene({"units": "English", "scene": {"atmosphere": {"rho": facade.wrap(np.array(rows, dtype=object))}}})
        p = facade.wrap(np.array(pos, dtype=object))
        got = SR(scene._get_density(p))
        want = ref_interp(hs, [r[1] for r in rows], -pos[2])
        p2 = facade.wrap(np.array([pos, [pos[0] + 1.0, pos[1] - 2.0, pos[2]]], dtype=object))
        got2 = scene._get_density(p2)
        nodes = [SR(scene._get_density(facade.wrap(np.array([pos[0], pos[1], -hs[i]], dtype=object)))) for i in range(nrows)]
        return {"got": got, "want": want, "got2": [SR(got2[0]), SR(got2[1])], "nodes": nodes, "rows": rows}

    res = explore(run_rho, assumptions=order_assumptions("r"), max_paths=80)
    ck.add_paths(res)
    for p in res:
        lab = "H2 density profile path%s" % "".join("1" if d else "0" for d in p.decisions)
        if not p.ok:
            ck.inconc("%s: %s %r" % (lab, p.kind, p.exc))
            continue
        v = p.value
        facts = p.facts()
        mk = _mk_getter_finding("_get_density", "density profile", lambda m: _table_case(m, "r", 1, "rho"))
        ck.add([Obligation(lab + " interp", facts, zexpr(v["got"]) == zexpr(v["want"]), meta={"finding": mk}),
                Obligation(lab + " vectorised", facts, z3.And(zexpr(v["got2"][0]) == zexpr(v["want"]), zexpr(v["got2"][1]) == zexpr(v["want"])), meta={"finding": mk}),
                Obligation(lab + " nodes", facts, z3.And(*[zexpr(v["nodes"][i]) == zexpr(v["rows"][i][1]) for i in range(nrows)]), meta={"finding": mk}),
                Obligation(lab + " canary", facts, zexpr(v["got"]) == zexpr(v["want"]) + 1, canary=True)])
    # wind profile ----------------------------------------------------------------------------------------
    def run_wind():
        hs, rows = table("w", 3)
        scene = MX.Scene({"units": "English", "scene": {"atmosphere": {"V_wind": facade.wrap(np.array(rows, dtype=object))}}})
        p = facade.wrap(np.array(pos, dtype=object))
        got = scene._get_wind(p)
        want = [ref_interp(hs, [r[1 + k] for r in rows], -pos[2]) for k in range(3)]
        p2 = facade.wrap(np.array([pos, pos], dtype=object))
        got2 = scene._get_wind(p2)
        return {"got": [SR(got[k]) for k in range(3)], "want": want, "got2": [[SR(got2[i][k]) for k in range(3)] for i in range(2)]}

    res = explore(run_wind, assumptions=order_assumptions("w"), max_paths=80)
    ck.add_paths(res)
    for p in res:
        lab = "H2 wind profile path%s" % "".join("1" if d else "0" for d in p.decisions)
        if not p.ok:
            ck.inconc("%s: %s %r" % (lab, p.kind, p.exc))
            continue
        v = p.value
        facts = p.facts()
        mk = _mk_getter_finding("_get_wind", "wind profile", lambda m: _table_case(m, "w", 3, "V_wind"))
        ck.add([Obligation(lab + " interp", facts, z3.And(*[zexpr(v["got"][k]) == zexpr(v["want"][k]) for k in range(3)]), meta={"finding": mk}),
                Obligation(lab + " vectorised", facts, z3.And(*[zexpr(v["got2"][i][k]) == zexpr(v["want"][k]) for i in range(2) for k in range(3)]), meta={"finding": mk}),
                Obligation(lab + " canary", facts, zexpr(v["got"][1]) == zexpr(v["want"][2]) + 1, canary=True)])

    # constants --------------------------------------------------------------------------------------------
    def run_const():
        r, nu, a = sym("c_rho"), sym("c_nu"), sym("c_a")
        w = [sym("c_w0"), sym("c_w1"), sym("c_w2")]
        scene = MX.Scene({"units": "English", "scene": {"atmosphere": {"rho": r, "viscosity": nu, "speed_of_sound": a, "V_wind": w}}})
        p = facade.wrap(np.array(pos, dtype=object))
        p2 = facade.wrap(np.array([pos, [pos[1], pos[2], pos[0]]], dtype=object))
        out = {"rho": (SR(scene._get_density(p)), r), "nu": (SR(scene._get_viscosity(p)), nu), "a": (SR(scene._get_sos(p)), a)}
        gw = scene._get_wind(p)
        gw2 = scene._get_wind(p2)
        nu2 = scene._get_viscosity(p2)
        a2 = scene._get_sos(p2)
        out["w"] = ([SR(gw[k]) for k in range(3)] + [SR(gw2[i][k]) for i in range(2) for k in range(3)], w + w + w)
        out["nu2"] = ([SR(nu2[0]), SR(nu2[1])], [nu, nu])
        out["a2"] = ([SR(a2[0]), SR(a2[1])], [a, a])
        return out

    res = explore(run_const, max_paths=10)
    ck.add_paths(res)
    for p in res:
        if not p.ok:
            ck.inconc("H2 constants: %s %r" % (p.kind, p.exc))
            continue
        v = p.value
        facts = p.facts()
        terms = [zexpr(v[k][0]) == zexpr(v[k][1]) for k in ("rho", "nu", "a")]
        for k in ("w", "nu2", "a2"):
            terms += [zexpr(g) == zexpr(w) for g, w in zip(*v[k])]
        mk = _mk_getter_finding("_get_density", "constant", lambda m: ({"rho": 0.002}, [1.0, 2.0, -3.0], [0.002]))
        ck.add([Obligation("H2 constant values everywhere", facts, z3.And(*terms), meta={"finding": mk}),
                Obligation("H2 constant canary", facts, zexpr(v["rho"][0]) == zexpr(v["rho"][1]) + 1, canary=True)])

    # standard profile wiring: getters call the standard atmosphere at altitude -z ------------------------------
    def run_std():
        scene = MX.Scene({"units": "SI", "scene": {"atmosphere": {"rho": "standard", "viscosity": "standard", "speed_of_sound": "standard"}}})
        p = facade.wrap(np.array([pos], dtype=object))
        alt = facade.wrap(np.array([-pos[2]], dtype=object))
        return {"rho": (SR(scene._get_density(p)[0]), SR(scene._std_atmos.rho(alt)[0])),
                "nu": (SR(scene._get_viscosity(p)[0]), SR(scene._std_atmos.nu(alt)[0])),
                "a": (SR(scene._get_sos(p)[0]), SR(scene._std_atmos.a(alt)[0]))}

    pz = z3.Real("pz")
    res = explore(run_std, assumptions=[pz <= 0, pz >= -86000], max_paths=40)
    ck.add_paths(res)
    for p in res:
        if not p.ok:
            ck.inconc("H2 standard wiring: %s %r" % (p.kind, p.exc))
            continue
        v = p.value
        ck.add([Obligation("H2 standard profile wiring path%s" % "".join("1" if d else "0" for d in p.decisions), p.facts(),
                           z3.And(*[zexpr(v[k][0]) == zexpr(v[k][1]) for k in ("rho", "nu", "a")]),
                           meta={"finding": _mk_getter_finding("_get_density", "standard", lambda m: ({"rho": "standard"}, [0.0, 0.0, -1000.0], None))})])
    ck.bound(H2="profile tables with %d rows, all entries and the query position symbolic; 2-column density and 4-column wind; constants" % nrows)
    ck.out_of_claim("3-D field tables (scipy LinearNDInterpolator / Qhull C code)", "CSV parsing by numpy.genfromtxt (C / file I/O); unit rows are covered by C06's import_value harness")


def _table_case(model, prefix, ncol, key):
    nrows = 3
    def val(n, d):
        try:
            return smt.frac(model[n])
        except Exception:
            return d
    hs = sorted(val("%s_h%d" % (prefix, i), 1000.0 * i) for i in range(nrows))
    for i in range(1, nrows):
        if hs[i] <= hs[i - 1]:
            hs[i] = hs[i - 1] + 1.0
    rows = [[hs[i]] + [val("%s_v%d_%d" % (prefix, i, k), 1.0 + i + 0.1 * k) for k in range(ncol)] for i in range(nrows)]
    pos = [val("px", 0.0), val("py", 0.0), val("pz", -500.0)]
    alt = -pos[2]
    want = [float(np.interp(alt, hs, [r[1 + k] for r in rows])) for k in range(ncol)]
    return {key: rows}, pos, want


def _mk_getter_finding(getter, case, build):
    def mk(ob):
        atmos, pos, want = build(ob.model or {})
        if want is None:
            return None
        return Finding("scene_getter", {"unit": "English", "atmos": atmos, "pos": pos, "getter": getter, "want": want, "case": case, "vectorised": "vectorised" in ob.label}, ob.label, ob.model)
    return mk


# ---- H3 ------------------------------------------------------------------------------------------------------
def h3(ck, tier):
    import machupX as MX
    import machupX.scene as SC
    from checks.families import simple_airplane
    ck.encoded(SC.Scene._perform_geometry_and_atmos_calcs)
    ck.rung("H3 sampling at control points")

    def run():
        from checks.families import unit_quat
        q = unit_quat("q")
        p = [sym("p0"), sym("p1"), sym("p2")]
        scene = MX.Scene({"units": "English", "scene": {"atmosphere": {"rho": 0.0023769}}})
        scene.add_aircraft("a", simple_airplane(), state={"velocity": [100.0, 0.0, 5.0]})
        ap = scene._airplanes["a"]
        ap.q = facade.wrap(np.array(q, dtype=object))
        ap.p_bar = facade.wrap(np.array(p, dtype=object))
        calls = {}
        for nm, shape in (("_get_density", None), ("_get_viscosity", None), ("_get_sos", None), ("_get_wind", 3)):
            def rec(pos, _n=nm, _s=shape):
                calls.setdefault(_n, []).append(pos)
                if np.ndim(pos) == 1:            # a single position (not what the assembly is documented to ask for; recorded, answered like the real getters)
                    return facade.wrap(np.array([sym("%s_one_%d" % (_n, k)) for k in range(3)], dtype=object)) if _s else sym("%s_one" % _n)
                n = pos.shape[0]
                return facade.wrap(np.array([[sym("%s_%d_%d" % (_n, i, k)) for k in range(3)] for i in range(n)], dtype=object)) if _s else \
                    facade.wrap(np.array([sym("%s_%d" % (_n, i)) for i in range(n)], dtype=object))
            setattr(scene, nm, rec)
        scene._perform_geometry_and_atmos_calcs()
        from machupX.helpers import quat_inv_trans
        want = facade.wrap(np.array(p, dtype=object)) + quat_inv_trans(ap.q, ap.PC)
        return {"calls": calls, "want": want, "rho": scene._rho, "nu": scene._nu, "a": scene._a, "w": scene._v_wind, "N": scene._N}

    qa = [z3.Real("q%d" % i) for i in range(4)]
    res = explore(run, assumptions=[sum(x * x for x in qa) == 1], max_paths=5)
    ck.add_paths(res)
    for p in res:
        if not p.ok:
            ck.inconc("H3: %s %r" % (p.kind, p.exc))
            continue
        v = p.value
        terms = []
        structural_ok = True
        for nm in ("_get_density", "_get_viscosity", "_get_sos", "_get_wind"):
            cl = v["calls"].get(nm, [])
            if len(cl) != 1 or np.shape(cl[0]) != np.shape(v["want"]):
                structural_ok = False
                continue
            terms += [zexpr(cl[0][idx]) == zexpr(v["want"][idx]) for idx in np.ndindex(v["want"].shape)]
        N = v["N"]
        terms += [zexpr(v["rho"][i]) == z3.Real("_get_density_%d" % i) for i in range(N)]
        terms += [zexpr(v["nu"][i]) == z3.Real("_get_viscosity_%d" % i) for i in range(N)]
        terms += [zexpr(v["a"][i]) == z3.Real("_get_sos_%d" % i) for i in range(N)]
        terms += [zexpr(v["w"][i][k]) == z3.Real("_get_wind_%d_%d" % (i, k)) for i in range(N) for k in range(3)]
        goal = z3.And(*terms) if structural_ok else z3.BoolVal(False)
        mk = lambda ob: Finding("sampling", {"p": [100.0, -50.0, -2000.0], "E": [10.0, 20.0, 30.0]}, ob.label, ob.model)
        ck.add([Obligation("H3 getters sampled at p + R(q) PC for every control point, results stored per section", p.facts(), goal, meta={"finding": mk})])
        if structural_ok:
            ck.add([Obligation("H3 canary", p.facts(), zexpr(v["calls"]["_get_density"][0][0][0]) == zexpr(v["want"][0][0]) + 1, canary=True)])
            ck.sample({"harness": "H3", "N": N, "first_position_argument": str(v["calls"]["_get_density"][0][0][0])[:200]})
    ck.bound(H3="one aircraft (rectangular wing, N=2 per side), arbitrary unit quaternion and position (symbolic)")


def main(tier, seed, only=None):
    ck = Check("C17", tier, seed, REPLAYS)
    facade.install()
    ck.assume("reals, not floats: verdicts are about the algebra of the source (DESIGN 3.1)",
              "pow / exp / sqrt are uninterpreted atoms with sign constraints; equal arguments give equal values",
              "the code's constant tables are compared with the 1976 standard's tables value by value (1e-12 relative)",
              "English/SI consistency is claimed within 1e-6 relative (the unit constants in the source carry ~7 digits)")
    ck.stub("Scene atmospheric getters replaced by recording stubs returning fresh symbols (H3 only)")
    for name, fn in (("h1", h1), ("h2", h2), ("h3", h3)):
        if only and name not in only:
            continue
        fn(ck, tier)
    return ck.finish()
