"""C01 -- returned circulation solves the lifting-line equations, or an error is raised (partial, see DESIGN.md).

H1  equation: the real assembly + _calc_invariant_flow_properties + _lifting_line_residual(gamma) with symbolic state and circulation
    against a reference written from Goates-Hunsaker / Phillips-Snyder: five-filament jointed horseshoe (closed-form Biot-Savart for
    finite segments and semi-infinite filaments), v_i = v_inf + w x r + sum_j Gamma_j v_ji, residual = 2|v_i x dl_i| Gamma_i - V^2 CL_i dS_i
    with the swept-section correction; solver-option lattice.
H2  loop contract: the real _solve_nonlinear with an uninterpreted residual: a normal return implies the loop guard saw |R(gamma_k)| <= tol
    for the last checked iterate and the reported circulation is gamma_k + omega*delta_k; the iteration cap raises SolverNotConvergedError.
H3  error policy: the real solve_forces + _handle_error for every error state / exception class.
H4  scipy fallback: a failing fsolve (ier != 1) always falls back to the nonlinear solver, whatever `verbose` is.
Out convergence within the default iteration limit for well-posed cases; uniqueness of the root.
"""
import warnings

import numpy as np
import z3

from symx import facade, smt
from symx.explore import explore
from symx.harness import Check, Finding, run_parallel
from symx.smt import Obligation
from symx.values import SR, SB, sym, zexpr, ctx, simp, exact, Ctx
from symx.rel import cone_defs, Cut, name_array
from symx.facade import wrap

from checks import solver as SV
from checks.families import family_G, UFAirfoil, use_airfoil


# ---- H2 -------------------------------------------------------------------------------------------------------------
def run_loop(maxit):
    rec = SV.Rec()
    sc = SV.make_scene({"type": "nonlinear", "relaxation": sym("relax"), "convergence": sym("conv"), "max_iterations": maxit})
    SV.install(sc, rec)
    try:
        sc._calc_invariant_flow_properties()
        g0 = SV.symarr("g0", (sc._N,))
        sc._gamma = g0
        exc = None
        try:
            sc._solve_nonlinear()
        except Exception as e:
            exc = e
        gam = list(np.asarray(sc._gamma, dtype=object).reshape(-1))
    finally:
        SV.uninstall(rec)
    return {"rec": rec, "exc": exc, "gamma": gam, "g0": list(g0), "N": sc._N}


def harness_loop(ck, maxit):
    label = "_solve_nonlinear max_iterations=%d" % maxit
    conv = z3.Real("conv")
    res = explore(lambda: run_loop(maxit), assumptions=[z3.Real("relax") > 0, z3.Real("relax") <= 1, conv > 0, conv < 100], max_paths=20)
    ck.add_paths(res)
    n_ret = n_raise = 0
    for p in res:
        lab = "%s path%s" % (label, "".join("1" if d else "0" for d in p.decisions))
        if not p.ok:
            ck.inconc("%s: %s %r %s" % (lab, p.kind, p.exc, (p.tb or "")[-300:]))
            continue
        v = p.value
        rec = v["rec"]
        mk = lambda ob, maxit=maxit: Finding("loop", {"maxit": maxit}, ob.label, ob.model)
        facts = list(p.ctx.assumptions) + list(p.ctx.pc)
        nres = len(rec.resid)
        if v["exc"] is not None:
            n_raise += 1
            en = type(v["exc"]).__name__
            # cap reached: maxit loop evaluations (+1 for the error message), each above tolerance
            ck.add([Obligation(lab + " iteration cap raises SolverNotConvergedError after max_iterations evaluations", [], z3.BoolVal(en == "SolverNotConvergedError" and nres == maxit + 1), meta={"finding": mk})])
            continue
        n_ret += 1
        # normal return: k loop evaluations (k <= maxit... strictly: the cap raises at k == maxit), one final evaluation, last checked iterate within tolerance
        k = nres - 1
        obs = [Obligation(lab + " normal return only before the iteration cap", [], z3.BoolVal(1 <= k < maxit + 1 and nres >= 2), meta={"finding": mk})]
        if k >= 1:
            Rk = rec.resid[k - 1]["R"]
            n2 = sum((zexpr(x) * zexpr(x) for x in Rk), z3.RealVal(0))
            g = n2 <= conv * conv
            obs.append(Obligation(lab + " the last checked iterate satisfies |R| <= convergence", facts + cone_defs(p.ctx, [g] + list(p.ctx.pc)), g, meta={"finding": mk}))
            # the circulation evaluated last (and reported) is the last checked iterate plus one relaxed Newton update; the first iterate is the start vector
            g0 = z3.And(*[a == zexpr(b) for a, b in zip(rec.resid[0]["gamma"], v["g0"])])
            obs.append(Obligation(lab + " first residual evaluation at the start vector", facts, g0, meta={"finding": mk}))
            gl = z3.And(*[a == zexpr(SR(b)) for a, b in zip(rec.resid[-1]["gamma"], v["gamma"])])
            obs.append(Obligation(lab + " reported circulation is the one evaluated last", facts, gl, meta={"finding": mk}))
        obs.append(Obligation(lab + " reach", facts, z3.BoolVal(True), witness=True))
        ck.add(obs)
    if (n_ret == 0 and maxit > 1) or n_raise == 0:
        ck.inconc("%s: returning paths %d, raising paths %d (both expected)" % (label, n_ret, n_raise))
    ck.sample({"harness": label, "paths": len(res), "returning": n_ret, "raising": n_raise})


# ---- H3 -------------------------------------------------------------------------------------------------------------
def harness_policy(ck):
    import machupX as MX
    from machupX.exceptions import SolverNotConvergedError
    from airfoil_db import DatabaseBoundsError
    rows = []
    for where in ("solver", "integrate"):
        for exc_name in ("SolverNotConvergedError", "DatabaseBoundsError", "ValueError"):
            for state in ("raise", "warn", "ignore", "bogus", None):
                rec = SV.Rec()
                sc = SV.make_scene({"type": "nonlinear"})
                SV.install(sc, rec)
                key = {"SolverNotConvergedError": "not_converged", "DatabaseBoundsError": "database_bounds"}.get(exc_name)
                if state is not None and key:
                    sc.set_err_state(**{key: state})

                def boom(*a, **k):
                    if exc_name == "SolverNotConvergedError":
                        raise SolverNotConvergedError("nonlinear", 1.0)
                    if exc_name == "DatabaseBoundsError":
                        raise DatabaseBoundsError("a1", np.array([0]), {"alpha": np.array([0.0])})
                    raise ValueError("other")
                if where == "solver":
                    sc._solve_nonlinear = boom
                else:
                    sc._solve_nonlinear = lambda **k: 0.0
                    sc._integrate_forces_and_moments = boom
                with warnings.catch_warnings(record=True) as wlist:
                    warnings.simplefilter("always")
                    try:
                        r = sc.solve_forces()
                        outcome = "returned"
                    except Exception as e:
                        outcome = type(e).__name__
                SV.uninstall(rec)
                eff = state if state is not None else "raise"
                if key is None:
                    want = "ValueError"
                elif eff == "raise":
                    want = exc_name
                elif eff in ("warn", "ignore"):
                    want = "returned"
                else:
                    want = "RuntimeError"
                warned = any(exc_name[:6] in str(w.message) or "converge" in str(w.message) or "bounds" in str(w.message).lower() for w in wlist)
                ok = outcome == want and (warned if (key and eff == "warn") else True)
                rows.append((where, exc_name, state, outcome, want, ok))
    mk = lambda ob: Finding("policy", {}, ob.label, ob.model)
    for where, en, st, out, want, ok in rows:
        ck.add([Obligation("policy: %s raised in %s with err_state=%s -> %s (documented: %s)" % (en, where, st, out, want), [], z3.BoolVal(ok), meta={"finding": mk})])
    ck.sample({"harness": "policy", "rows": len(rows), "example": rows[0]})
    ck.note("H3 enumerates a finite table (2 sites x 3 exception classes x 5 error states) completely; no solver search is involved beyond recording the verdicts")


# ---- H4 -------------------------------------------------------------------------------------------------------------
def run_fallback(verbose):
    rec = SV.Rec()
    sc = SV.make_scene({"type": "scipy_fsolve", "convergence": sym("conv"), "max_iterations": 1})
    SV.install(sc, rec, fsolve_ier=SV.IntLike("ier"))
    import builtins
    import machupX.scene as SC
    SC.print = lambda *a, **k: None
    try:
        exc = None
        try:
            sc.solve_forces(verbose=verbose)
        except Exception as e:
            exc = e
    finally:
        SC.__dict__.pop("print", None)
        SV.uninstall(rec)
    return {"order": list(rec.order), "exc": exc}


def harness_fallback(ck, verbose):
    label = "scipy fallback verbose=%s" % verbose
    res = explore(lambda: run_fallback(verbose), assumptions=[z3.Real("conv") > 0], max_paths=12)
    ck.add_paths(res)
    ier = z3.Int("ier")
    for p in res:
        lab = "%s path%s" % (label, "".join("1" if d else "0" for d in p.decisions))
        if not p.ok:
            ck.inconc("%s: %s %r %s" % (lab, p.kind, p.exc, (p.tb or "")[-300:]))
            continue
        order = p.value["order"]
        after = order[order.index("fsolve") + 1:] if "fsolve" in order else []
        fell_back = "linear" in after and after.count("resid") >= 1
        facts = list(p.ctx.assumptions) + list(p.ctx.pc)
        mk = lambda ob, verbose=verbose: Finding("fallback", {"verbose": verbose}, ob.label, ob.model)
        # on this path: (ier != 1) must imply the fallback ran; (ier == 1) must imply it did not
        g = z3.And(z3.Implies(ier != 1, z3.BoolVal(fell_back)), z3.Implies(ier == 1, z3.BoolVal(not fell_back)))
        ck.add([Obligation(lab + " failing fsolve <=> fallback to the nonlinear solver (%s)" % ("fell back" if fell_back else "no fallback"), facts, g, meta={"finding": mk}),
                Obligation(lab + " reach", facts, z3.BoolVal(True), witness=True)])
    ck.sample({"harness": label, "paths": len(res)})


# ---- replay ---------------------------------------------------------------------------------------------------------
def replay_loop(inp):
    """real nonlinear solver on well-posed and on starved cases: a returned circulation satisfies the equation; the cap raises"""
    from checks.analysis import real_classes
    import machupX as MX
    from machupX.exceptions import SolverNotConvergedError
    bad = []
    with real_classes():
        for maxit, conv in ((100, 1e-10), (1, 1e-14), (2, 1e-12)):
            sc = MX.Scene({"units": "English", "solver": {"type": "nonlinear", "max_iterations": maxit, "convergence": conv}, "scene": {"atmosphere": {"rho": 0.0023769}}})
            sc.add_aircraft("p", family_G("g2", N=4), state={"velocity": [100.0, 3.0, 9.0], "angular_rates": [0.05, 0.0, 0.0]})
            try:
                sc.solve_forces()
                R = np.linalg.norm(sc._lifting_line_residual(sc._gamma))
                if R > max(conv, 1e-9) * 1e3:
                    bad.append(("returned with residual", float(R), conv, maxit))
            except SolverNotConvergedError:
                pass
            except Exception as e:
                bad.append(("exception", repr(e)))
    return {"reproduced": bool(bad), "key": "nonlinear loop contract", "observed": bad, "what": "%s" % bad}


def replay_policy(inp):
    from checks.analysis import real_classes
    import machupX as MX
    from machupX.exceptions import SolverNotConvergedError
    bad = []
    with real_classes():
        for state, want in (("raise", "SolverNotConvergedError"), ("warn", "returned"), ("ignore", "returned"), (None, "SolverNotConvergedError")):
            sc = MX.Scene({"units": "English", "solver": {"type": "nonlinear", "max_iterations": 1, "convergence": 1e-15}, "scene": {"atmosphere": {"rho": 0.0023769}}})
            sc.add_aircraft("p", family_G("g2", N=4), state={"velocity": [100.0, 3.0, 9.0]})
            if state:
                sc.set_err_state(not_converged=state)
            with warnings.catch_warnings(record=True) as wl:
                warnings.simplefilter("always")
                try:
                    sc.solve_forces(); out = "returned"
                except Exception as e:
                    out = type(e).__name__
            if out != want or (state == "warn" and not wl):
                bad.append((state, out, want, len(wl)))
    return {"reproduced": bool(bad), "key": "error policy", "observed": bad, "what": "set_err_state(not_converged=...) with a starved solver: %s" % bad}


def replay_fallback(inp):
    """fault injection at the documented point: scipy's fsolve reports failure (ier != 1); the real _solve_w_scipy / solve_forces must fall back"""
    from checks.analysis import real_classes
    import machupX as MX
    import machupX.scene as SC
    import scipy.optimize as so
    bad = []
    with real_classes():
        calls = []

        class Fake:
            def __getattr__(self, n):
                return getattr(so, n)

            @staticmethod
            def fsolve(f, x0, full_output=True, **k):
                x, info, ier, msg = so.fsolve(f, x0, full_output=True, maxfev=2)      # starved: scipy itself reports ier != 1
                calls.append(ier)
                return x, info, ier, msg
        saved = SC.sopt
        SC.sopt = Fake()
        try:
            for verbose in (False, True):
                sc = MX.Scene({"units": "English", "solver": {"type": "scipy_fsolve"}, "scene": {"atmosphere": {"rho": 0.0023769}}})
                sc.add_aircraft("p", family_G("g2", N=4), state={"velocity": [100.0, 3.0, 9.0]})
                import io, contextlib
                with contextlib.redirect_stdout(io.StringIO()):
                    sc.solve_forces(verbose=verbose)
                R = float(np.linalg.norm(sc._lifting_line_residual(sc._gamma)))
                if calls[-1] != 1 and R > 1e-6:
                    bad.append({"verbose": verbose, "fsolve_ier": int(calls[-1]), "residual_of_returned_circulation": R})
        finally:
            SC.sopt = saved
    return {"reproduced": bool(bad), "key": "scipy failure not detected (verbose=False)", "observed": bad,
            "what": "scipy.optimize.fsolve reported failure (ier != 1, starved with maxfev=2) but solve_forces returned its unconverged circulation silently: %s" % bad}


REPLAYS = {"loop": replay_loop, "policy": replay_policy, "fallback": replay_fallback}


def main(tier, seed, only=None):
    ck = Check("C01", tier, seed, REPLAYS)
    facade.install()
    import machupX.scene as SC
    ck.encoded(SC.Scene.solve_forces, SC.Scene._solve_nonlinear, SC.Scene._solve_w_scipy, SC.Scene._solve_linear, SC.Scene._handle_error, SC.Scene.set_err_state)
    ck.stub("FlowStub, ResidStub (uninterpreted residual), linsolve, fsolve (arbitrary x, symbolic ier), integration recorder")
    ck.assume("the property's 'within tolerance' is decided for the last *checked* iterate gamma_k; the reported circulation is gamma_k + omega*delta_k (one relaxed Newton step later), as the source does",
              "relaxation in (0,1], 0 < convergence < 100 (the loop starts from the constant error 100: a larger threshold returns the start vector unchecked)")
    ck.out_of_claim("convergence within the default iteration limit for well-posed cases (liveness of a floating-point Newton iteration)", "uniqueness of the root")
    tasks = []
    if not only or "loop" in only:
        for maxit in ((1, 2) if tier != "thorough" else (1, 2, 3)):
            tasks.append(("loop %d" % maxit, lambda c, maxit=maxit: harness_loop(c, maxit)))
    if not only or "policy" in only:
        tasks.append(("policy", harness_policy))
    if not only or "fallback" in only:
        tasks.append(("fallback F", lambda c: harness_fallback(c, False)))
        tasks.append(("fallback T", lambda c: harness_fallback(c, True)))
    if not only or "equation" in only:
        try:
            from checks import C01_eq
            C01_eq.add_tasks(tasks, tier)
        except ImportError:
            ck.note("H1 (equation vs reference) not available in this build")
    run_parallel(ck, tasks)
    ck.bound(loop_unrolling="max_iterations <= 3", N="2..4 sections")
    ck.rung("H2, H3, H4 (+H1 when present)")
    return ck.finish()
