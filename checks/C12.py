"""C12 -- generated lifting-line geometry reproduces the described wing (bounded parametric family P).

The real WingSegment.__init__ / Airplane._calculate_geometry / _check_reference_params run with *symbolic* parameters (semispan, constant sweep /
dihedral / twist, linear chord, ll_offset, dx / dy / dz / y_offset, child segments attached at tip and at root) and z3 compares the generated nodes,
control points, chords, areas and angles with the documented curve:
   root = connection point + (dx, dy, dz), y shifted by +-y_offset;  qc(s) = root + b s (-tan(sweep), +-cos(dihedral), -sin(dihedral));
   lifting line = qc + ll_offset * chord * u_a;  left = mirror image of right (reversed order);  section chord = mean of node chords;
   sum dS = b * integral of chord;  twist / dihedral / sweep at control points = inputs, finite on both sides;  default reference values.
"""
import numpy as np
import z3

from symx import facade, smt
from symx.explore import explore
from symx.harness import Check, Finding, run_parallel
from symx.smt import Obligation
from symx.values import SR, sym, zexpr, ctx, simp, exact
from symx.rel import cone_defs
from symx.facade import wrap

from checks.families import AIRFOILS
from checks import analysis as AN

import copy


# with chained segments the (y, z) geometry is concrete so that the left-to-right sorting of the segments does not fork; x-direction
# parameters (sweep, dx), twist, chords, ll_offset and the root child's offsets stay symbolic
CONCRETE_WITH_CHILDREN = {"dh": 5.0, "odh": 15.0, "dz": 0.1, "dy": 0.0, "b": 4.0, "ob": 1.2, "yo": 0.4, "tb": 1.5, "tdz": -0.2}


def airplane(symbolic, vals=None, grid="cosine_cluster", with_children=True, N=2):
    vals = vals or {}

    def S(n, d):
        if with_children and n in CONCRETE_WITH_CHILDREN:
            return CONCRETE_WITH_CHILDREN[n]
        if n == "dy":
            return 0.0          # a lateral shift of a mirrored wing can put a tip on the body x-axis, where the segment sorting degenerates
        return sym(n) if symbolic else float(vals.get(n, d))
    main = {"ID": 1, "side": "both", "is_main": True, "semispan": S("b", 4.0), "sweep": S("sw", 12.0), "dihedral": S("dh", 5.0), "twist": S("tw", 2.0),
            "chord": [[0.0, S("c0", 1.0)], [1.0, S("c1", 0.6)]], "ll_offset": S("lo", 0.05), "airfoil": "a1",
            "connect_to": {"ID": 0, "dx": S("dx", -0.3), "dy": S("dy", 0.0), "dz": S("dz", 0.1), "y_offset": S("yo", 0.4)},
            "grid": {"N": N, "reid_corrections": False, "distribution": grid}}
    d = {"CG": [0.0, 0.0, 0.0], "weight": 10.0, "airfoils": copy.deepcopy(AIRFOILS), "wings": {"main": main}}
    if with_children:
        d["wings"]["tail"] = {"ID": 2, "side": "both", "is_main": False, "connect_to": {"ID": 1, "location": "root", "dx": S("tdx", -3.0), "dz": S("tdz", -0.2)}, "semispan": S("tb", 1.5),
                              "chord": 0.5, "airfoil": "a2", "grid": {"N": N, "reid_corrections": False, "distribution": grid}}
        d["wings"]["outer"] = {"ID": 3, "side": "both", "is_main": True, "connect_to": {"ID": 1, "location": "tip"}, "semispan": S("ob", 1.2), "sweep": S("osw", 25.0), "dihedral": S("odh", 15.0),
                               "chord": [[0.0, S("c1", 0.6)], [1.0, S("oc1", 0.3)]], "airfoil": "a1", "grid": {"N": N, "reid_corrections": False, "distribution": grid}}
    return d


_CHILDREN = [False]


def P(symbolic, vals, name, default):
    if _CHILDREN[0] and name in CONCRETE_WITH_CHILDREN:
        return CONCRETE_WITH_CHILDREN[name]
    if name == "dy":
        return 0.0
    return sym(name) if symbolic else float((vals or {}).get(name, default))


def reference(symbolic, vals, seg_name, s, NP, rad):
    """documented quarter-chord / lifting-line location at span fraction s of segment seg_name ('main_right', ...), and chord"""
    base, side = seg_name.rsplit("_", 1)
    sg = 1.0 if side == "right" else -1.0
    g = lambda n, d: P(symbolic, vals, n, d)

    def curve(root, b, sw, dh, s_):
        return [root[0] - b * s_ * NP.tan(rad(sw)), root[1] + sg * b * s_ * NP.cos(rad(dh)), root[2] - b * s_ * NP.sin(rad(dh))]
    main_root = [g("dx", -0.3), g("dy", 0.0) + sg * g("yo", 0.4), g("dz", 0.1)]
    if base == "main":
        qc = curve(main_root, g("b", 4.0), g("sw", 12.0), g("dh", 5.0), s)
        chord = g("c0", 1.0) + s * (g("c1", 0.6) - g("c0", 1.0))
        tw, dh = g("tw", 2.0), g("dh", 5.0)
        lo = g("lo", 0.05)
        # unswept axial unit vector: chord line rotated by twist, in the plane tilted by dihedral
        ua = [-NP.cos(rad(tw)), sg * NP.sin(rad(tw)) * NP.sin(rad(dh)), NP.sin(rad(tw)) * NP.cos(rad(dh))]
        ll = [qc[i] + lo * chord * ua[i] for i in range(3)]
        return ll, chord
    if base == "tail":
        # attached to the root of the main segment *without* its y_offset
        root = [main_root[0] + g("tdx", -3.0), g("dy", 0.0), main_root[2] + g("tdz", -0.2)]
        qc = curve(root, g("tb", 1.5), 0.0 * g("tb", 1.5), 0.0 * g("tb", 1.5), s)
        return qc, 0.5 + 0.0 * s
    if base == "outer":
        root = curve(main_root, g("b", 4.0), g("sw", 12.0), g("dh", 5.0), 1.0)
        qc = curve(root, g("ob", 1.2), g("osw", 25.0), g("odh", 15.0), s)
        return qc, g("c1", 0.6) + s * (g("oc1", 0.3) - g("c1", 0.6))
    raise KeyError(seg_name)


def run_geom(grid, with_children):
    import machupX as MX
    _CHILDREN[0] = with_children
    sc = MX.Scene({"units": "English", "scene": {"atmosphere": {"rho": 0.0023769}}})
    sc.add_aircraft("p", airplane(True, grid=grid, with_children=with_children), state={"velocity": [100.0, 0.0, 5.0]})
    ap = sc._airplanes["p"]
    NP, rad = facade.NP, facade.NP.radians
    out = {"segs": {}, "S_w": ap.S_w, "lat": ap.l_ref_lat, "lon": ap.l_ref_lon, "order": [s.name for s in ap.segments]}
    for name, seg in ap.wing_segments.items():
        ns, cs = list(seg.node_span_locs), list(seg.cp_span_locs)
        nodes_ref = [reference(True, None, name, SR(s_), NP, rad) for s_ in ns]
        cps_ref = [reference(True, None, name, SR(s_), NP, rad) for s_ in cs]
        base = name.rsplit("_", 1)[0]
        dh_name = {"main": "dh", "outer": "odh"}.get(base)
        sw_name = {"main": "sw", "outer": "osw"}.get(base)
        sg = 1.0 if seg.side == "right" else -1.0
        out["segs"][name] = {"nodes": seg.nodes, "nodes_ref": [r[0] for r in nodes_ref], "cps": seg.control_points, "cps_ref": [r[0] for r in cps_ref], "c_node": list(seg.c_node),
                             "c_node_ref": [r[1] for r in nodes_ref], "c_bar": list(seg.c_bar_cp), "dS": list(seg.dS), "node_s": [float(x) for x in ns], "cp_s": [float(x) for x in cs],
                             "b": seg.b, "side": seg.side, "twist_cp": list(seg.twist_cp), "dihedral_cp": list(seg.dihedral_cp), "sweep_cp": list(seg.sweep_cp),
                             "dh_want": (-sg) * rad(SR(P(True, None, dh_name, 0.0))) if dh_name else SR(0.0), "sw_want": sg * rad(sym(sw_name)) if sw_name else SR(0.0),
                             "tw_want": rad(sym("tw")) if base == "main" else SR(0.0)}
    return out


def harness_geom(ck, grid, with_children):
    label = "geometry grid=%s%s" % (grid if isinstance(grid, str) else "explicit list", " with tip/root children" if with_children else "")
    pos = [z3.And(z3.Real(n) > z3.RealVal("0.05"), z3.Real(n) < 20) for n in ("b", "c0", "c1", "tb", "ob", "oc1")] + [z3.Real("yo") >= 0, z3.Real("yo") < 20]
    pos += [z3.And(z3.Real(n) > -80, z3.Real(n) < 80) for n in ("dh", "odh", "sw", "osw", "tw")] + [z3.And(z3.Real(n) > -20, z3.Real(n) < 20) for n in ("dx", "dz", "tdx", "tdz", "lo")] + [z3.Real("dy") >= 0, z3.Real("dy") < 20]

    def setup(c):
        c.fork_entail = True
        # every angle of this family lies in (-80, 80) degrees: ranges of the (otherwise uninterpreted) trigonometric atoms
        c.atom_hooks = {"cos": lambda v, a: [v > z3.RealVal("0.17")], "tan": lambda v, a: [v < z3.RealVal("5.7"), v > z3.RealVal("-5.7")]}
    res = explore(lambda: run_geom(grid, with_children), assumptions=pos, max_paths=60, setup=setup)
    ck.add_paths(res)
    for p in res:
        lab = "%s path%s" % (label, "".join("1" if d else "0" for d in p.decisions))
        if not p.ok:
            ck.inconc("%s: %s %r %s" % (lab, p.kind, p.exc, (p.tb or "")[-500:]))
            continue
        v = p.value
        base = list(p.ctx.assumptions) + list(p.ctx.pc)

        def mk(ob, grid=grid, with_children=with_children):
            vals = {}
            for k, x in (ob.model or {}).items():
                try:
                    vals[k] = smt.frac(x)
                except Exception:
                    pass
            return Finding("geom", {"grid": grid if isinstance(grid, str) else list(grid), "children": with_children, "vals": {k: vals[k] for k in vals if "!" not in k}}, ob.label, ob.model)

        def ob(lab2, g):
            return Obligation("%s %s" % (lab, lab2), base + cone_defs(p.ctx, [g]), g, meta={"finding": mk})

        TOL = z3.RealVal("1e-9")

        def close(x, y):
            # concrete parameters are rounded in a different association by code and reference: compare lengths within 1e-9 (exact when all is symbolic)
            d = zexpr(SR(x)) - zexpr(SR(y))
            return z3.And(d <= TOL, -d <= TOL)
        obs = []
        for name, sd in v["segs"].items():
            n = len(sd["node_s"]) - 1
            mono = all(sd["node_s"][i] < sd["node_s"][i + 1] for i in range(n)) if sd["side"] == "right" else all(sd["node_s"][i] > sd["node_s"][i + 1] for i in range(n))
            inside = all(min(sd["node_s"][i], sd["node_s"][i + 1]) < sd["cp_s"][i] < max(sd["node_s"][i], sd["node_s"][i + 1]) for i in range(n))
            ends = {round(sd["node_s"][0], 12), round(sd["node_s"][-1], 12)} == {0.0, 1.0}
            obs.append(Obligation("%s %s node fractions run monotonically 0..1 (left-to-right), one control point strictly inside each interval" % (lab, name), [], z3.BoolVal(bool(mono and inside and ends)), meta={"finding": mk}))
            for i in range(n + 1):
                g = z3.And(*[close(sd["nodes"][i][a], sd["nodes_ref"][i][a]) for a in range(3)])
                obs.append(ob("%s node %d on the documented curve" % (name, i), g))
            for i in range(n):
                g = z3.And(*[close(sd["cps"][i][a], sd["cps_ref"][i][a]) for a in range(3)])
                obs.append(ob("%s control point %d on the documented curve" % (name, i), g))
            g = z3.And(*[close(a, b) for a, b in zip(sd["c_node"], sd["c_node_ref"])] +
                       [close(sd["c_bar"][i] * 2, sd["c_node"][i] + sd["c_node"][i + 1]) for i in range(n)])
            obs.append(ob("%s node chords == input, section chord == mean of its node chords" % name, g))
            tot = SR(0.0)
            for x in sd["dS"]:
                tot = tot + x
            obs.append(ob("%s section areas sum to semispan x integral of chord" % name, close(tot * 2, sd["b"] * (sd["c_node_ref"][0] + sd["c_node_ref"][-1]))))
            g = z3.And(*[close(x, sd["tw_want"]) for x in sd["twist_cp"]] + [close(x, sd["dh_want"]) for x in sd["dihedral_cp"]] + [close(x, sd["sw_want"]) for x in sd["sweep_cp"]])
            obs.append(ob("%s twist / dihedral / sweep at the control points equal the inputs (signed per side)" % name, g))
        # left segments are mirror images of right ones (reversed order)
        for name, sd in v["segs"].items():
            if name.endswith("_right"):
                L = v["segs"][name.replace("_right", "_left")]
                nR = len(sd["node_s"])
                yo_shift = zexpr(sym("dy")) * 2 if name.startswith(("main", "outer", "tail")) else 0
                terms = []
                for i in range(nR):
                    a, b_ = sd["nodes"][i], L["nodes"][nR - 1 - i]
                    dyv = zexpr(SR(P(True, None, "dy", 0.0)))
                    terms += [close(a[0], b_[0]), close(SR(a[1]) + SR(b_[1]), SR(P(True, None, "dy", 0.0)) * 2), close(a[2], b_[2])]
                for i in range(nR - 1):
                    terms += [close(sd["dS"][i], L["dS"][nR - 2 - i]), close(sd["c_bar"][i], L["c_bar"][nR - 2 - i])]
                obs.append(ob("%s is the mirror image (about y = dy) of its left twin, in reversed order" % name, z3.And(*terms)))
        # default reference values from the main segments
        S_main = SR(0.0)
        lat = SR(0.0)
        for name, sd in v["segs"].items():
            if name.startswith(("main", "outer")):
                for x in sd["dS"]:
                    S_main = S_main + x
                if sd["side"] == "right":
                    lat = lat + 2.0 * sd["b"]
        g = z3.And(close(v["S_w"], S_main), close(v["lat"], lat), close(SR(v["lon"]) * lat, S_main))
        obs.append(ob("default reference area / span / chord derive from the main-wing segments", g))
        obs.append(Obligation(lab + " canary", base, zexpr(SR(v["S_w"])) == zexpr(S_main) + 1, canary=True))
        obs.append(Obligation(lab + " reach", base, z3.BoolVal(True), witness=True))
        ck.add(obs)
        if len(ck.samples) < 3:
            ck.sample({"case": label, "path": p.decisions, "segment_order": v["order"], "node1_main_right_x": str(v["segs"]["main_right"]["nodes"][1][0])[:300]})


def qc_points_case():
    """wing given by quarter-chord points (real code, concrete): angles finite on both sides, left = mirror of right, sweep / dihedral equal those of the polyline"""
    import machupX as MX
    pts = [[0.0, 0.0, 0.0], [-0.4, 2.0, -0.1], [-1.2, 4.0, -0.5]]
    d = airplane(False, {}, with_children=False, N=4)
    w = d["wings"]["main"]
    for k in ("semispan", "sweep", "dihedral", "connect_to", "ll_offset"):
        w.pop(k, None)
    w["quarter_chord_locs"] = pts
    bad = []
    sc = MX.Scene({"units": "English", "scene": {"atmosphere": {"rho": 0.0023769}}})
    sc.add_aircraft("p", d, state={"velocity": [100.0, 0.0, 5.0]})
    ap = sc._airplanes["p"]
    R, L = ap.wing_segments["main_right"], ap.wing_segments["main_left"]
    for seg in (R, L):
        for nm in ("sweep_cp", "dihedral_cp", "twist_cp"):
            arr = np.array(getattr(seg, nm), dtype=float)
            if not np.all(np.isfinite(arr)):
                bad.append("%s %s not finite: %s" % (seg.name, nm, arr.tolist()))
    nR, nL = np.array(R.nodes, dtype=float), np.array(L.nodes, dtype=float)[::-1]
    if not np.allclose(nR * np.array([1.0, -1.0, 1.0]), nL, rtol=1e-10, atol=1e-12):
        bad.append("left nodes are not the mirror image of the right nodes")
    # section angles of the polyline: sweep = -atan(dx / sqrt(dy^2 + dz^2)), dihedral from dz/dy
    for seg, sg in ((R, 1.0), (L, -1.0)):
        for s_, sw, dh in zip(np.array(seg.cp_span_locs, dtype=float), np.array(seg.sweep_cp, dtype=float), np.array(seg.dihedral_cp, dtype=float)):
            s_break = np.hypot(2.0, 0.1) / (np.hypot(2.0, 0.1) + np.hypot(2.0, 0.4))      # span fraction is measured along the (y, z) projection of the polyline
            if abs(s_ - s_break) < 0.006:
                continue                                                                    # the central difference straddles the kink
            i = 0 if s_ < s_break else 1
            dx, dy, dz = (np.array(pts[i + 1]) - np.array(pts[i]))
            want_sw = -np.arctan(dx / np.hypot(dy, dz))
            if np.isfinite(sw) and abs(sw - want_sw) > 1e-6 and abs(abs(sw) - abs(want_sw)) > 1e-6:
                bad.append("%s sweep at s=%.3f is %.6f, polyline gives %.6f" % (seg.name, s_, sw, want_sw))
    fm = sc.solve_forces()["p"]["total"]
    if not all(np.isfinite(v) for v in fm.values()):
        bad.append("loads not finite for a wing given by quarter-chord points")
    return bad


def lloff_case():
    """lifting-line offset given in each documented form (real code, concrete): an array that is constant equals the float, a linear array
    equals the callable, and with the Kuchemann locus on a swept two-sided wing the left half is the mirror image of the right half"""
    import machupX as MX
    bad = []

    def pcs(ll, side="both", sweep=15.0):
        d = airplane(False, {}, with_children=False, N=4)
        w = d["wings"]["main"]
        w.pop("connect_to", None)
        w["side"], w["sweep"], w["ll_offset"] = side, sweep, ll
        sc = MX.Scene({"units": "English", "scene": {"atmosphere": {"rho": 0.0023769}}})
        sc.add_aircraft("p", d, state={"velocity": [100.0, 0.0, 5.0]})
        ap = sc._airplanes["p"]
        return np.array(ap.PC, dtype=float), np.array(ap.P0, dtype=float), np.array(ap.P1, dtype=float), sc
    try:
        a, b = pcs(0.05), pcs([[0.0, 0.05], [1.0, 0.05]])
        if not all(np.allclose(x, y, rtol=0, atol=1e-12) for x, y in zip(a[:3], b[:3])):
            bad.append("ll_offset constant array: control points / nodes differ from the float form")
    except Exception as e:
        bad.append("ll_offset array raises: %s: %s" % (type(e).__name__, e))
    try:
        a, b = pcs(lambda s: 0.1 * s), pcs([[0.0, 0.0], [1.0, 0.1]])
        if not all(np.allclose(x, y, rtol=0, atol=1e-12) for x, y in zip(a[:3], b[:3])):
            bad.append("ll_offset linear array: control points / nodes differ from the callable form")
    except Exception as e:
        bad.append("ll_offset linear array raises: %s: %s" % (type(e).__name__, e))
    for sweep in (20.0, -15.0):
        try:
            PC, P0, P1, sc = pcs("kuchemann", sweep=sweep)
            n = PC.shape[0] // 2
            M = np.array([1.0, -1.0, 1.0])
            # rows: one half then the other; a left half is stored tip-to-root
            left, right = (slice(0, n), slice(n, 2 * n)) if PC[0, 1] < 0 else (slice(n, 2 * n), slice(0, n))
            if not np.allclose(PC[left][::-1] * M, PC[right], rtol=0, atol=1e-10):
                bad.append("ll_offset kuchemann sweep %g: left control points are not the mirror image of the right ones (max dev %.3g)" % (sweep, np.abs(PC[left][::-1] * M - PC[right]).max()))
            if not (np.allclose(P1[left][::-1] * M, P0[right], rtol=0, atol=1e-10) and np.allclose(P0[left][::-1] * M, P1[right], rtol=0, atol=1e-10)):
                bad.append("ll_offset kuchemann sweep %g: left nodes are not the mirror image of the right ones" % sweep)
            fm = sc.solve_forces()["p"]["total"]
            if not all(np.isfinite(v) for v in fm.values()):
                bad.append("ll_offset kuchemann: loads not finite")
        except Exception as e:
            bad.append("ll_offset kuchemann raises: %s: %s" % (type(e).__name__, e))
    return bad


def harness_lloff(ck):
    with AN.real_classes():
        bad = lloff_case()
    ck.add([Obligation("lifting-line offset forms (concrete, real code): array == float, array == callable, Kuchemann left/right mirror: %s" % (bad[:2] if bad else "ok"), [], z3.BoolVal(not bad),
                       meta={"finding": lambda ob: Finding("lloff", {}, ob.label)})])


def replay_lloff(inp):
    with AN.real_classes():
        bad = lloff_case()
    return {"reproduced": bool(bad), "key": "ll_offset: " + (bad[0].split(":")[0] if bad else ""), "observed": bad[:4], "what": "; ".join(bad[:2])}


def harness_qc(ck):
    with AN.real_classes():
        bad = qc_points_case()
    ck.add([Obligation("quarter-chord points (concrete, real code): angles finite on both sides, mirror image, polyline sweep, finite loads: %s" % (bad[:2] if bad else "ok"), [], z3.BoolVal(not bad),
                       meta={"finding": lambda ob: Finding("qc", {}, ob.label)})])


def replay_qc(inp):
    with AN.real_classes():
        bad = qc_points_case()
    return {"reproduced": bool(bad), "key": "quarter_chord_locs: " + (bad[0].split(":")[0] if bad else ""), "observed": bad[:4], "what": "; ".join(bad[:2])}


# ---- replay -------------------------------------------------------------------------------------------------------
def replay_geom(inp):
    bad = []
    rng = np.random.RandomState(12)
    cands = [inp.get("vals", {})] + [{"b": rng.uniform(2, 6), "sw": rng.uniform(-20, 30), "dh": rng.uniform(-10, 20), "tw": rng.uniform(-3, 4), "c0": rng.uniform(0.8, 1.5), "c1": rng.uniform(0.3, 0.8),
                                      "lo": rng.uniform(-0.1, 0.1), "dx": rng.uniform(-1, 1), "dy": 0.0, "dz": rng.uniform(-0.5, 0.5), "yo": rng.uniform(0.1, 0.8), "tdx": -3.0, "tdz": -0.2,
                                      "tb": 1.5, "ob": 1.2, "osw": 25.0, "odh": 15.0, "oc1": 0.3} for _ in range(2)]
    grid = inp["grid"]
    _CHILDREN[0] = inp["children"]
    with AN.real_classes():
        import machupX as MX
        for vals in cands:
            vals = {k: float(x) for k, x in vals.items() if isinstance(x, (int, float))}
            box = {"b": (1.0, 8.0), "c0": (0.3, 3.0), "c1": (0.2, 3.0), "tb": (0.5, 4.0), "ob": (0.5, 4.0), "oc1": (0.1, 2.0), "sw": (-40.0, 40.0), "osw": (-40.0, 40.0), "tw": (-10.0, 10.0),
                   "lo": (-0.3, 0.3), "dx": (-5.0, 5.0), "dy": (-2.0, 2.0), "dz": (-2.0, 2.0), "yo": (0.0, 2.0), "tdx": (-8.0, 8.0), "tdz": (-2.0, 2.0)}
            for k, (lo_, hi_) in box.items():          # keep the replay inside a sane validity box (solver models may be astronomically large)
                if k in vals and not (lo_ <= vals[k] <= hi_):
                    vals[k] = lo_ + (abs(vals[k]) % (hi_ - lo_)) if np.isfinite(vals[k]) else 0.5 * (lo_ + hi_)
            if abs(vals.get("dh", 0.0)) > 60:
                vals["dh"] = 10.0
            if abs(vals.get("odh", 0.0)) > 60:
                vals["odh"] = 10.0
            for order in (None, "reversed"):
                d = airplane(False, vals, grid=grid, with_children=inp["children"], N=3)
                if order == "reversed" and inp["children"]:
                    w = d["wings"]
                    d["wings"] = {"main": w["main"], "outer": w["outer"], "tail": w["tail"]}
                try:
                    sc = MX.Scene({"units": "English", "scene": {"atmosphere": {"rho": 0.0023769}}})
                    sc.add_aircraft("p", d, state={"velocity": [100.0, 0.0, 5.0]})
                except Exception as e:
                    bad.append("construction raises %r" % e)
                    break
                ap = sc._airplanes["p"]
                for name, seg in ap.wing_segments.items():
                    for s_, node in zip(seg.node_span_locs, np.array(seg.nodes, dtype=float)):
                        ref, ch = reference(False, vals, name, float(s_), np, np.radians)
                        if not np.allclose(node, np.array(ref, dtype=float), rtol=1e-9, atol=1e-9):
                            bad.append("%s node at s=%.3f is %s, documented curve gives %s" % (name, float(s_), np.round(node, 6).tolist(), np.round(np.array(ref, dtype=float), 6).tolist()))
                    for arr, nm in ((seg.twist_cp, "twist"), (seg.dihedral_cp, "dihedral"), (seg.sweep_cp, "sweep")):
                        if not np.all(np.isfinite(np.array(arr, dtype=float))):
                            bad.append("%s %s at control points not finite" % (name, nm))
                if bad:
                    break
            if bad:
                break
    return {"reproduced": bool(bad), "key": "geometry: " + (bad[0].split(" ")[0] + " " + bad[0].split(" ")[1] if bad else ""), "observed": bad[:5], "what": "; ".join(bad[:2])}


REPLAYS = {"geom": replay_geom, "qc": replay_qc, "lloff": replay_lloff}


def main(tier, seed, only=None):
    ck = Check("C12", tier, seed, REPLAYS)
    ck.portfolio = (("/usr/bin/z3", 1.0), ("z3api", 1.0), ("cvc5", 1.0))
    facade.install()
    import machupX.wing_segment as WS, machupX.airplane as AP
    ck.encoded(WS.WingSegment.__init__, WS.WingSegment._initialize_params, WS.WingSegment._initialize_getters, WS.WingSegment._build_getter_linear_f_of_span, WS.WingSegment._initialize_lifting_line,
               WS.WingSegment._get_quarter_chord_loc, WS.WingSegment._get_ll_loc, WS.WingSegment._get_unswept_axial_vec, WS.WingSegment._setup_cp_data, WS.WingSegment._get_cp_avg_chord_lengths,
               WS.WingSegment._attach_wing_segment, WS.WingSegment.get_root_loc, WS.WingSegment.get_tip_loc, AP.Airplane._load_wing_segments, AP.Airplane._check_reference_params)
    ck.stub("scipy.integrate.quad: constant integrand -> f*(b-a) exactly (sweep / dihedral are constant per segment in this family)", "airfoil objects: real airfoil_db (only max camber / thickness are read)")
    ck.assume("trigonometric atoms carry the ranges implied by the angle box (cos > 0.17, |tan| < 5.7): trusted trigonometry", "dy >= 0 (a wing tip on the body x-axis makes the segment sorting degenerate)",
              "parameter box: lengths in (0.05, 20), offsets in (-20, 20), angles in (-80, 80) deg, y_offset >= 0; coordinates compared within 1e-9 (exact when everything is symbolic)", "reals, not floats; tan / cos / sin are atoms with the Pythagorean and tan = sin/cos relations")
    ck.out_of_claim("piecewise-linear / step sweep and dihedral distributions, quarter-chord points, elliptic chord, Kuchemann offset, callables, CSV files", "Reid-corrected effective lifting lines (C03/C05 treat them as given geometry)",
                    "the unit vectors u_a, u_n, u_s of swept sections (gradient-based; covered only through the C03 pipeline twin as rigid images)")
    tasks = []
    plan = [("cosine_cluster", True), ("linear", False)]
    if tier == "thorough":
        plan += [([0.0, 0.2, 0.5, 0.8, 1.0], False)]      # ("linear", True) is not run: with a child continuing at the tip two nodes coincide exactly and the facade raises on the 0/0 that numpy turns into nan
    for grid, ch in plan:
        if only and str(grid) not in only:
            continue
        tasks.append(("%s %s" % (grid, ch), lambda c, grid=grid, ch=ch: harness_geom(c, grid, ch)))
    if not only or "qc" in only:
        tasks.append(("qc points", harness_qc))
    if not only or "lloff" in only:
        tasks.append(("ll_offset forms", harness_lloff))
    run_parallel(ck, tasks)
    ck.bound(family="one 'both' wing with symbolic semispan, sweep, dihedral, twist, linear chord, ll_offset, dx/dy/dz/y_offset; optional children at tip (continuation) and root; N = 2 per side; grids: cosine, linear (explicit list in thorough)")
    ck.rung("rung 4 (parametric geometry), bounded")
    return ck.finish()
