"""C07 -- results always reflect the current state, whatever the call history.

State machine: base state = per aircraft (v, w, q, p, controls, geometry), aircraft list; derived state = Earth-frame caches,
sampled atmosphere, _solved flag and stored results.  Inv: every derived item equals recompute(base) (or is recomputed before
use) and `_solved` only announces results computed for the current base state.

One inductive step per public operation: from an arbitrary Inv-state (symbolic base state, caches produced by the real assembly
code, `_solved` either way) run the real operation with symbolic arguments, then compare the *complete physical state the next
query depends on* with that of a freshly constructed scene in the post base state.  Queries are LLsolve (uninterpreted function
of that stored state), so a stale cache gives a refutable obligation.  Analyses as operations are C08's harness (same oracle).
"""
import copy

import numpy as np
import z3

from symx import facade, smt
from symx.explore import explore
from symx.harness import Check, Finding, run_parallel
from symx.smt import Obligation
from symx.values import SR, sym, zexpr, ctx, simp, exact
from symx.rel import cone_defs

from checks import analysis as AN
from checks import refmodels as RM
from checks.C09 import setup_ctx, NAME
from checks.families import family_G


def spec(symbolic, vals=None, two=False):
    vals = vals or {}

    def S(n, d):
        return sym(n) if symbolic else float(vals.get(n, d))
    q = [S("q0", 0.96), S("q1", 0.1), S("q2", -0.2), S("q3", 0.15)]
    if not symbolic:
        qa = np.array(q); q = list(qa / np.linalg.norm(qa))
    st = {"position": [S("px", 100.0), S("py", -50.0), S("pz", -1000.0)], "velocity": [S("u", 98.0), S("v", 4.0), S("w", 9.0)], "orientation": q,
          "angular_rates": [S("wp", 0.05), S("wq", -0.03), S("wr", 0.02)]}
    # density: a linear profile in altitude (so that stale atmospheric sampling is visible); concrete replays use the standard atmosphere
    rho = 0.0023769 if symbolic else "standard"     # (the stored control-point positions are part of the compared state, so stale sampling is visible symbolically)
    sp = {"scene": {"units": "English", "scene": {"atmosphere": {"rho": rho, "V_wind": [S("W0", 5.0), S("W1", -3.0), S("W2", 1.0)]}}},
          "aircraft": {NAME: {"input": family_G("g5"), "state": st, "controls": {"aileron": S("da", 2.0), "elevator": S("de", -1.5)}}}}
    if two:
        sp["aircraft"]["other"] = {"input": family_G("g1"), "state": {"position": [S("opx", 30.0), S("opy", 20.0), S("opz", -1010.0)], "velocity": [90.0, 0.0, 5.0]}, "controls": {}}
    return sp


def new_state(symbolic, vals=None, kind="full"):
    vals = vals or {}

    def S(n, d):
        return sym(n) if symbolic else float(vals.get(n, d))
    q = [S("nq0", 0.9), S("nq1", -0.1), S("nq2", 0.3), S("nq3", 0.2)]
    if not symbolic:
        qa = np.array(q); q = list(qa / np.linalg.norm(qa))
    st = {"velocity": [S("nu", 105.0), S("nv", -2.0), S("nw", 5.0)]}
    if kind in ("full", "pose"):
        st["position"] = [S("npx", 90.0), S("npy", -40.0), S("npz", -900.0)]
        st["orientation"] = q
    if kind == "full":
        st["angular_rates"] = [S("nwp", 0.01), S("nwq", 0.02), S("nwr", -0.02)]
    return st


def current_spec(sc, base_spec):
    """description of a fresh scene in the *current* base state of sc (read from its aircraft objects)"""
    from machupX.helpers import quat_trans
    sp = {"scene": base_spec["scene"], "aircraft": {}}
    for name, ap in sc._airplanes.items():
        sp["aircraft"][name] = {"input": base_spec["aircraft"].get(name, {"input": ap._input_dict})["input"],
                                "state": {"position": list(ap.p_bar), "velocity": list(quat_trans(ap.q, ap.v)), "orientation": list(ap.q), "angular_rates": list(ap.w)},
                                "controls": dict(ap.current_control_state)}
    return sp


OPS = ["set_state_full", "set_state_velocity_only", "set_state_pose", "set_state_translate", "set_controls", "add_aircraft", "remove_aircraft", "solve_then_set_state", "solve_forces", "distributions_after_set",
       "two_set_state_translate", "two_set_state_other"]
TWO = ("remove_aircraft", "two_set_state_translate", "two_set_state_other")


def run_op(op, presolved):
    w = AN.new_world()
    two = op in TWO

    base = spec(True, two=two)
    lab = RM.Lab(base, symbolic=True)
    sc = lab.fresh()
    if presolved or op in ("solve_then_set_state", "distributions_after_set"):
        sc.solve_forces()
    exc = None
    try:
        if op == "set_state_full":
            sc.set_aircraft_state(new_state(True, kind="full"), aircraft=NAME)
        elif op == "set_state_velocity_only":
            st = {"velocity": [sym("nu"), sym("nv"), sym("nw")], "position": base["aircraft"][NAME]["state"]["position"], "orientation": base["aircraft"][NAME]["state"]["orientation"],
                  "angular_rates": base["aircraft"][NAME]["state"]["angular_rates"]}
            sc.set_aircraft_state(st, aircraft=NAME)
        elif op == "set_state_pose":
            sc.set_aircraft_state(new_state(True, kind="pose"), aircraft=NAME)
        elif op == "two_set_state_translate":
            b = base["aircraft"][NAME]["state"]
            sc.set_aircraft_state({"position": [sym("npx"), sym("npy"), sym("npz")], "velocity": b["velocity"], "orientation": b["orientation"], "angular_rates": b["angular_rates"]}, aircraft=NAME)
        elif op == "two_set_state_other":
            sc.set_aircraft_state({"position": [sym("npx"), sym("npy"), sym("npz")], "velocity": [90.0, 0.0, 5.0]}, aircraft="other")
        elif op == "set_state_translate":
            b = base["aircraft"][NAME]["state"]
            sc.set_aircraft_state({"position": [sym("npx"), sym("npy"), sym("npz")], "velocity": b["velocity"], "orientation": b["orientation"], "angular_rates": b["angular_rates"]}, aircraft=NAME)
        elif op == "set_controls":
            sc.set_aircraft_control_state({"aileron": sym("nda"), "elevator": sym("nde")}, aircraft=NAME)
        elif op == "add_aircraft":
            sc.add_aircraft("other", family_G("g1"), state={"position": [sym("opx"), sym("opy"), sym("opz")], "velocity": [90.0, 0.0, 5.0]})
        elif op == "remove_aircraft":
            sc.remove_aircraft("other")
        elif op == "solve_then_set_state":
            sc.set_aircraft_state(new_state(True, kind="full"), aircraft=NAME)
        elif op == "solve_forces":
            sc.solve_forces(initial_guess="previous")
        elif op == "distributions_after_set":
            st = {"velocity": [sym("nu"), sym("nv"), sym("nw")], "position": base["aircraft"][NAME]["state"]["position"], "orientation": base["aircraft"][NAME]["state"]["orientation"],
                  "angular_rates": base["aircraft"][NAME]["state"]["angular_rates"]}
            sc.set_aircraft_state(st, aircraft=NAME)
            sc.distributions()
    except Exception as e:
        exc = e
    post = w.scene_state(sc) if exc is None else None
    ext = None
    if exc is None and op.startswith("two_"):
        # the spatial node vectors the kernel reads (incl. the cross-aircraft blocks) against the real full recomputation from the base state
        names = ("_r_0", "_r_1", "_r_0_joint", "_r_1_joint", "_r_0_mag", "_r_1_mag", "_r_0_joint_mag", "_r_1_joint_mag", "_V_ji_const")
        flat = lambda: [simp(zexpr(SR(x))) for nm in names for x in np.asarray(getattr(sc, nm), dtype=object).reshape(-1)]
        a = flat()
        solved_flag = sc._solved
        sc._perform_geometry_and_atmos_calcs()
        sc._solved = solved_flag
        ext = (a, flat())
    fresh_state = None
    if exc is None:
        base2 = dict(base)
        if op == "add_aircraft":
            base2 = {"scene": base["scene"], "aircraft": dict(base["aircraft"], other={"input": family_G("g1")})}
        fresh = RM.Lab(current_spec(sc, base2), symbolic=True).fresh()
        fresh_state = w.scene_state(fresh)
    solved = bool(getattr(sc, "_solved", False))
    last = getattr(sc, "_solved_call", None)
    return {"exc": exc, "post": post, "fresh": fresh_state, "solved": solved, "ext": ext, "last_state": last["state"] if (solved and last is not None) else None,
            "N": sc._N, "names": list(sc._airplanes.keys())}


def harness(ck, op, presolved):
    label = "%s from a %s Inv-state" % (op, "solved" if presolved else "not-yet-solved")
    alt = [z3.Real(n) < 0 for n in ("pz", "npz", "opz")] + [z3.Real(n) > -90000 for n in ("pz", "npz", "opz")]
    if op == "two_set_state_translate":
        alt = alt + [z3.Real("npx") != z3.Real("px")]          # a real move; the no-op call is the single-aircraft op's path
    if op == "two_set_state_other":
        alt = alt + [z3.Real("npx") != z3.Real("opx")]
    res = explore(lambda: run_op(op, presolved), assumptions=alt, max_paths=12, setup=lambda c: (setup_ctx(c), c.declare_unit([sym("nq%d" % i) for i in range(4)])))
    ck.add_paths(res)
    for p in res:
        lab = "%s path%s" % (label, "".join("1" if d else "0" for d in p.decisions))
        if not p.ok:
            ck.inconc("%s: %s %r %s" % (lab, p.kind, p.exc, (p.tb or "")[-400:]))
            continue
        v = p.value
        base_facts = list(p.ctx.assumptions) + list(p.ctx.pc)

        def mk(ob, op=op, presolved=presolved):
            m = ob.model or {}
            vals = {}
            for k, x in m.items():
                try:
                    vals[k] = smt.frac(x)
                except Exception:
                    pass
            return Finding("step", {"op": op, "presolved": presolved, "vals": {k: vals[k] for k in vals if not ("!" in k)}}, ob.label, ob.model)
        if v["exc"] is not None:
            ck.add([Obligation("%s raises %s" % (lab, type(v["exc"]).__name__), base_facts, z3.BoolVal(False), meta={"finding": mk})])
            continue
        post, fresh = v["post"], v["fresh"]
        if len(post) != len(fresh):
            ck.add([Obligation(lab + " storage shape", [], z3.BoolVal(False), meta={"finding": mk})])
            continue
        diff = [(a, b) for a, b in zip(post, fresh) if a.get_id() != b.get_id()]
        if not diff:
            ck.add([Obligation(lab + " derived state == recompute(base)", [], z3.BoolVal(True))])
        for i in range(0, len(diff), 12):
            ch = diff[i:i + 12]
            g = z3.And(*[a == b for a, b in ch])
            ck.add([Obligation("%s derived state == recompute(base) [%d]" % (lab, i // 12), base_facts + cone_defs(p.ctx, [g]), g, meta={"finding": mk})])
        if v.get("ext"):
            a, b = v["ext"]
            dd = [(x, y) for x, y in zip(a, b) if x.get_id() != y.get_id()]
            if len(a) != len(b):
                ck.add([Obligation(lab + " node-vector storage shape", [], z3.BoolVal(False), meta={"finding": mk})])
            for i in range(0, len(dd), 12):
                g = z3.And(*[x == y for x, y in dd[i:i + 12]])
                ck.add([Obligation("%s spatial node vectors / constant influence == full recomputation [%d]" % (lab, i // 12), base_facts + cone_defs(p.ctx, [g]), g, meta={"finding": mk})])
            if not dd:
                ck.add([Obligation(lab + " spatial node vectors / constant influence == full recomputation (%d entries, syntactically equal)" % len(a), [], z3.BoolVal(True))])
        if v["solved"]:
            if v["last_state"] is None or len(v["last_state"]) != len(post):
                g = z3.BoolVal(False)
            else:
                dd = [(a, b) for a, b in zip(v["last_state"], post) if a.get_id() != b.get_id()]
                g = z3.And(*[a == b for a, b in dd]) if dd else z3.BoolVal(True)
            ck.add([Obligation(lab + " _solved only announces results of the current state", base_facts + cone_defs(p.ctx, [g]), g, meta={"finding": mk})])
        ck.add([Obligation(lab + " reach", base_facts, z3.BoolVal(True), witness=True)])
        if post:
            ck.add([Obligation(lab + " canary", base_facts, post[0] == fresh[0] + 1, canary=True)])
        if len(ck.samples) < 4:
            ck.sample({"op": op, "presolved": presolved, "path": p.decisions, "state_components": len(post), "syntactically_different": len(diff), "solved_after": v["solved"]})


# ---- replay ----------------------------------------------------------------------------------------------------------
def replay_step(inp):
    import machupX as MX
    op, presolved = inp["op"], inp["presolved"]
    vals = inp.get("vals", {})
    cands = [vals, {}]
    # small pose changes (below numpy.allclose's default tolerance) and velocity-only changes are the interesting inputs
    cands.append({"npx": 100.0 + 5e-4, "npy": -50.0, "npz": -1000.0, "nq0": 0.96, "nq1": 0.1 + 4e-6, "nq2": -0.2, "nq3": 0.15})
    tried = []
    with AN.real_classes():
        for vv in cands:
            base = spec(False, vv, two=(op in TWO))
            sc = RM.Lab(base, False).fresh()
            try:
                if presolved or op in ("solve_then_set_state", "distributions_after_set"):
                    sc.solve_forces()
                dist = None
                if op in ("set_state_full", "solve_then_set_state"):
                    sc.set_aircraft_state(new_state(False, vv, "full"), aircraft=NAME)
                elif op in ("set_state_velocity_only", "distributions_after_set"):
                    st = dict(base["aircraft"][NAME]["state"]); st["velocity"] = [vv.get("nu", 105.0), vv.get("nv", -2.0), vv.get("nw", 5.0)]
                    sc.set_aircraft_state(st, aircraft=NAME)
                elif op == "set_state_pose":
                    sc.set_aircraft_state(new_state(False, vv, "pose"), aircraft=NAME)
                elif op == "two_set_state_translate":
                    st = dict(base["aircraft"][NAME]["state"]); st["position"] = [40.0, 15.0, -1005.0]
                    sc.set_aircraft_state(st, aircraft=NAME)
                elif op == "two_set_state_other":
                    sc.set_aircraft_state({"position": [vv.get("npx", 110.0), vv.get("npy", -45.0), vv.get("npz", -1003.0)], "velocity": [90.0, 0.0, 5.0]}, aircraft="other")
                elif op == "set_state_translate":
                    st = dict(base["aircraft"][NAME]["state"]); st["position"] = [vv.get("npx", 400.0), vv.get("npy", -150.0), vv.get("npz", -9000.0)]
                    sc.set_aircraft_state(st, aircraft=NAME)
                elif op == "set_controls":
                    sc.set_aircraft_control_state({"aileron": vv.get("nda", -3.0), "elevator": vv.get("nde", 2.0)}, aircraft=NAME)
                elif op == "add_aircraft":
                    sc.add_aircraft("other", family_G("g1"), state={"position": [vv.get("opx", 30.0), vv.get("opy", 20.0), vv.get("opz", -1010.0)], "velocity": [90.0, 0.0, 5.0]})
                elif op == "remove_aircraft":
                    sc.remove_aircraft("other")
                elif op == "solve_forces":
                    sc.solve_forces(initial_guess="previous")
                dist = sc.distributions()
                fm = sc.solve_forces()
                base2 = base if op != "add_aircraft" else {"scene": base["scene"], "aircraft": dict(base["aircraft"], other={"input": family_G("g1")})}
                fresh = RM.Lab(_concrete_current(sc, base2), False).fresh()
                fm2 = fresh.solve_forces()
                dist2 = fresh.distributions()
            except Exception as e:
                if type(e).__name__ in ("SolverNotConvergedError", "MaxIterationError", "DatabaseBoundsError", "LinAlgError"):
                    tried.append({"vals": vv, "solver_error": repr(e)})     # an ill-posed concrete state, not a history effect
                    continue
                return {"reproduced": True, "key": "%s raises %s" % (op, type(e).__name__), "observed": repr(e), "what": "%s raised %r" % (op, e)}
            bad = []
            for ac in fm2:
                for k, x in fm2[ac]["total"].items():
                    y = fm[ac]["total"][k]
                    if abs(x - y) > 1e-8 * max(abs(x), abs(y), 1e-3):
                        bad.append("solve_forces %s %s: %.10g vs fresh %.10g" % (ac, k, y, x))
            for ac in dist2:
                for seg in dist2[ac]:
                    for k in ("section_CL", "Fz", "alpha"):
                        a, b = np.array(dist[ac][seg][k], dtype=float), np.array(dist2[ac][seg][k], dtype=float)
                        if not np.allclose(a, b, rtol=1e-7, atol=1e-10):
                            bad.append("distributions %s/%s/%s: %s vs fresh %s" % (ac, seg, k, a[:2], b[:2]))
            tried.append({"vals": vv, "n_bad": len(bad)})
            if bad:
                qs = sorted(set(b.split(" ")[0] for b in bad))
                return {"reproduced": True, "key": "%s%s: stale %s" % (op, " (solved)" if presolved else "", "+".join(qs)), "observed": bad[:6],
                        "what": "after %s the scene answers differently from a freshly constructed scene in the same state: %s" % (op, "; ".join(bad[:3]))}
    return {"reproduced": False, "why": "agrees with a fresh scene at %d inputs" % len(tried), "observed": tried}


def _concrete_current(sc, base_spec):
    from machupX.helpers import quat_trans
    sp = {"scene": base_spec["scene"], "aircraft": {}}
    for name, ap in sc._airplanes.items():
        sp["aircraft"][name] = {"input": base_spec["aircraft"][name]["input"],
                                "state": {"position": [float(x) for x in ap.p_bar], "velocity": [float(x) for x in quat_trans(ap.q, ap.v)], "orientation": [float(x) for x in ap.q],
                                          "angular_rates": [float(x) for x in ap.w]},
                                "controls": {k: float(v) for k, v in ap.current_control_state.items()}}
    return sp


REPLAYS = {"step": replay_step}


def main(tier, seed, only=None):
    ck = Check("C07", tier, seed, REPLAYS)
    facade.install()
    AN.patch_classes()
    import machupX.scene as SC, machupX.airplane as AP
    ck.encoded(SC.Scene.set_aircraft_state, SC.Scene.set_aircraft_control_state, SC.Scene.add_aircraft, SC.Scene.remove_aircraft, SC.Scene._initialize_storage_arrays,
               SC.Scene._store_aircraft_properties, SC.Scene._perform_geometry_and_atmos_calcs, SC.Scene.distributions, AP.Airplane.set_state, AP.Airplane.set_control_state)
    ck.stub("LLsolve: queries are uninterpreted functions of the stored physical state (a stale cache is a different argument)", "AeroADT")
    ck.assume("Inv-states are produced by the real construction code from a symbolic base state; `_solved` either False or True with results of that state",
              "unit quaternions; uniform symbolic wind; reals, not floats", "one inductive step covers histories of any length provided Inv is inductive (each step re-establishes it)")
    ck.out_of_claim("the analyses as operations (C08 uses the same oracle)", "internal iteration state of the real solver (initial_guess='previous' starts from the previous circulation: C14)")
    tasks = []
    for op in OPS:
        for presolved in ((False, True) if op not in ("solve_then_set_state", "distributions_after_set") else (True,)):
            if only and not any(o in op for o in only):
                continue
            if tier != "thorough" and op in ("add_aircraft", "remove_aircraft") and presolved:
                continue
            tasks.append(("%s %s" % (op, presolved), lambda c, op=op, presolved=presolved: harness(c, op, presolved)))
    run_parallel(ck, tasks)
    ck.bound(step=1, aircraft="<= 2 (g5 and g1)", arguments="all symbolic (two-aircraft moves: a translation that changes x)", max_paths=12)
    ck.rung("rung 1: inductive step with LLsolve")
    return ck.finish()
