"""Driver: python -m checks.run Cxx [--tier quick|thorough] [--replay path]"""
import argparse
import importlib
import os
import sys
import traceback


def main():
    ap = argparse.ArgumentParser()
    ap.add_argument("pid")
    ap.add_argument("--tier", default=os.environ.get("VERIF_TIER", "quick"))
    ap.add_argument("--replay", default=None)
    ap.add_argument("--only", default=None, help="comma separated harness names (debugging)")
    a = ap.parse_args()
    seed = int(os.environ.get("VERIF_SEED", "0"))
    os.chdir("/verif")
    sys.path.insert(0, "/repo")
    mod = importlib.import_module("checks.%s" % a.pid)
    from symx import harness
    if a.replay:
        sys.exit(harness.run_replay(a.pid, mod.REPLAYS, a.replay))
    try:
        rc = mod.main(a.tier if a.tier in ("quick", "thorough") else "quick", seed, only=a.only.split(",") if a.only else None)
    except BaseException as e:
        if isinstance(e, SystemExit):
            raise
        traceback.print_exc()
        print("INCONCLUSIVE %s: harness error %r" % (a.pid, e))
        rc = 2
    sys.stdout.flush()
    try:
        from symx import smt
        smt.shutdown()
    except Exception:
        pass
    os._exit(rc)


if __name__ == "__main__":
    main()
