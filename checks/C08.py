"""C08 -- analyses are side-effect free; set-state options leave exactly the solved state.

Every analysis of Scene runs symbolically (LLsolve / AeroADT stubs, symbolic base state, pose, wind, controls) and the
*complete physical state the next solve depends on* (aircraft state, control deflections, cached Earth-frame arrays,
sampled atmosphere) is compared before and after.  For the set-state variants of the trims the post state is compared with
the returned and reported values.  Trim loops are unrolled (max_iterations = 2) with the residuals symbolic.
"""
import numpy as np
import z3

from symx import facade, smt
from symx.explore import explore
from symx.harness import Check, Finding
from symx.smt import Obligation
from symx.values import SR, sym, zexpr, ctx, simp
from symx.rel import cone_defs

from checks import analysis as AN
from checks import refmodels as RM
from checks.C09 import make_spec, setup_ctx, model_vals, _sanitise, NAME

MAXIT = 2


def analyses(tier):
    """(label, callable(scene), mode).  mode: 'same' | 'trim' | 'trim_orient' | 'target'"""
    A = [
        ("stability_derivatives", lambda sc: sc.stability_derivatives(), "same"),
        ("damping_derivatives", lambda sc: sc.damping_derivatives(), "same"),
        ("control_derivatives", lambda sc: sc.control_derivatives(), "same"),
        ("state_derivatives", lambda sc: sc.state_derivatives(), "same"),
        ("aero_center", lambda sc: sc.aero_center(), "same"),
        ("distributions", lambda sc: sc.distributions(), "same"),
        ("MAC+reference", lambda sc: (sc.MAC(), sc.get_aircraft_reference_geometry()), "same"),
        ("pitch_trim(set=False)", lambda sc: sc.pitch_trim(set_trim_state=False, max_iterations=MAXIT), "same"),
        ("pitch_trim_using_orientation(set=False)", lambda sc: sc.pitch_trim_using_orientation(set_trim_state=False, max_iterations=MAXIT), "same"),
        ("target_CL(set=False)", lambda sc: sc.target_CL(CL=sym("CLt"), set_state=False, max_iterations=MAXIT, control_state={"elevator": sym("tde")}), "same"),
        ("pitch_trim(set=True)", lambda sc: sc.pitch_trim(set_trim_state=True, max_iterations=MAXIT), "trim"),
        ("pitch_trim_using_orientation(set=True)", lambda sc: sc.pitch_trim_using_orientation(set_trim_state=True, max_iterations=MAXIT), "trim_orient"),
        ("target_CL(set=True)", lambda sc: sc.target_CL(CL=sym("CLt"), set_state=True, max_iterations=MAXIT, control_state={"elevator": sym("tde")}), "target"),
    ]
    if tier == "thorough":
        A.append(("derivatives", lambda sc: sc.derivatives(), "same"))
    return A


def extra_assumptions():
    q = [z3.Real("q%d" % i) for i in range(4)]
    quantity = q[0] * q[2] - q[1] * q[3]
    return [quantity < z3.RealVal("0.49"), quantity > z3.RealVal("-0.49")]


def aero_of(sc, name):
    ap = sc._airplanes[name]
    return ap.get_aerodynamic_state(v_wind=sc._get_wind(ap.p_bar))


def run_one(fn, mode, two=False):
    w = AN.new_world()
    lab = RM.Lab(make_spec(True, two=two), symbolic=True)
    sc = lab.fresh()
    pre_state = w.scene_state(sc)
    pre_snap = AN.snapshot(sc)
    pre_aero = aero_of(sc, NAME)
    exc = None
    ret = None
    try:
        ret = fn(sc)
    except Exception as e:      # MaxIterationError / anything else: recorded, the state is still examined
        exc = e
    post_state = w.scene_state(sc)
    post_snap = AN.snapshot(sc)
    post_aero = aero_of(sc, NAME)
    fresh_state = None
    if mode == "trim_orient" and exc is None:
        st, cs = ret
        fresh_state = w.scene_state(lab.fresh({NAME: {"state": st, "controls": dict(cs)}}))
    solved_ok = True
    if getattr(sc, "_solved", False):
        last = getattr(sc, "_solved_call", None)
        solved_ok = last is not None and len(last["state"]) == len(post_state)
        solved_terms = [a == b for a, b in zip(last["state"], post_state) if a.get_id() != b.get_id()] if solved_ok else []
    else:
        solved_terms = []
    return {"pre": pre_state, "post": post_state, "pre_snap": pre_snap, "post_snap": post_snap, "pre_aero": pre_aero, "post_aero": post_aero,
            "ret": ret, "exc": exc, "solved_ok": solved_ok, "solved_terms": solved_terms, "solved": bool(getattr(sc, "_solved", False)), "world": w, "fresh_state": fresh_state}


# ---- replay -----------------------------------------------------------------------------------------------------
REAL_CALLS = {
    "stability_derivatives": lambda sc: sc.stability_derivatives(),
    "damping_derivatives": lambda sc: sc.damping_derivatives(),
    "control_derivatives": lambda sc: sc.control_derivatives(),
    "state_derivatives": lambda sc: sc.state_derivatives(),
    "derivatives": lambda sc: sc.derivatives(),
    "aero_center": lambda sc: sc.aero_center(),
    "distributions": lambda sc: sc.distributions(),
    "MAC+reference": lambda sc: (sc.MAC(), sc.get_aircraft_reference_geometry()),
    "pitch_trim(set=False)": lambda sc: sc.pitch_trim(set_trim_state=False),
    "pitch_trim_using_orientation(set=False)": lambda sc: sc.pitch_trim_using_orientation(set_trim_state=False),
    "target_CL(set=False)": lambda sc: sc.target_CL(CL=0.35, set_state=False, control_state={"elevator": 1.0}),
    "pitch_trim(set=True)": lambda sc: sc.pitch_trim(set_trim_state=True),
    "pitch_trim_using_orientation(set=True)": lambda sc: sc.pitch_trim_using_orientation(set_trim_state=True),
    "target_CL(set=True)": lambda sc: sc.target_CL(CL=0.35, set_state=True, control_state={"elevator": 1.0}),
}


def _real_state(sc):
    aps = list(sc._airplanes.values())
    return {"v": np.concatenate([np.array(ap.v, dtype=float) for ap in aps]), "w": np.concatenate([np.array(ap.w, dtype=float) for ap in aps]),
            "q": np.concatenate([np.array(ap.q, dtype=float) for ap in aps]), "p": np.concatenate([np.array(ap.p_bar, dtype=float) for ap in aps]),
            "controls": {"%s.%s" % (ap.name, k): float(v) for ap in aps for k, v in ap.current_control_state.items()},
            "flaps": np.concatenate([np.array(s._delta_flap, dtype=float) for ap in aps for s in ap.segments])}


def _fm_vec(fm):
    return np.array([fm[ac]["total"][k] for ac in sorted(fm) for k in sorted(fm[ac]["total"])], dtype=float)


def replay_same(inp):
    label, mode = inp["label"], inp["mode"]
    rng = np.random.RandomState(inp.get("seed", 0))
    cands = [inp.get("vals", {})]
    for _ in range(2):
        cands.append({"W0": rng.uniform(-20, 20), "W1": rng.uniform(-20, 20), "W2": rng.uniform(-5, 5), "u": rng.uniform(80, 120), "v": rng.uniform(-8, 8),
                      "w": rng.uniform(2, 12), "q0": 1.0, "q1": rng.uniform(-.2, .2), "q2": rng.uniform(-.2, .2), "q3": rng.uniform(-.3, .3),
                      "wp": rng.uniform(-.05, .05), "wq": rng.uniform(-.05, .05), "wr": rng.uniform(-.05, .05), "da": rng.uniform(-3, 3), "de": rng.uniform(-3, 3)})
    tried = []
    with AN.real_classes():
        for vals in cands:
            vals = _sanitise(vals)
            lab = RM.Lab(make_spec(False, vals, two=inp.get("two", False)), symbolic=False)
            sc = lab.fresh()
            try:
                fm0 = _fm_vec(sc.solve_forces())
                s0 = _real_state(sc)
                a0 = sc._airplanes[NAME].get_aerodynamic_state(v_wind=sc._get_wind(sc._airplanes[NAME].p_bar))
                ret = REAL_CALLS[label](sc)
                s1 = _real_state(sc)
                a1 = sc._airplanes[NAME].get_aerodynamic_state(v_wind=sc._get_wind(sc._airplanes[NAME].p_bar))
                fm1 = _fm_vec(sc.solve_forces())
            except Exception as e:
                tried.append({"vals": vals, "error": repr(e)})
                continue
            bad = []
            if mode == "same":
                for k in ("v", "w", "q", "p", "flaps"):
                    if not np.allclose(s0[k], s1[k], rtol=1e-9, atol=1e-9):
                        bad.append("%s changed by %.3g" % (k, float(np.max(np.abs(s0[k] - s1[k])))))
                if s0["controls"] != s1["controls"] and not all(abs(s0["controls"][k] - s1["controls"][k]) < 1e-9 for k in s0["controls"]):
                    bad.append("controls changed %s -> %s" % (s0["controls"], s1["controls"]))
                if not np.allclose(fm0, fm1, rtol=1e-7, atol=1e-9):
                    bad.append("a following solve_forces differs by %.3g" % float(np.max(np.abs(fm0 - fm1))))
            else:
                bad += _check_set_state(sc, mode, ret, s0, s1, a0, a1, vals)
            tried.append({"vals": vals, "bad": bad})
            if bad:
                cls = sorted(set(b.split(" ")[0] for b in bad))
                return {"reproduced": True, "key": "%s: %s" % (label, ",".join(cls)), "observed": {"vals": vals, "bad": bad},
                        "what": "%s at state %s: %s" % (label, vals, "; ".join(bad))}
    return {"reproduced": False, "why": "state preserved at %d concrete states" % len(tried), "observed": tried}


def _check_set_state(sc, mode, ret, s0, s1, a0, a1, vals):
    bad = []
    ap = sc._airplanes[NAME]
    if mode == "trim":
        r = ret[NAME]
        if abs(a1[0] - r["alpha"]) > 1e-7:
            bad.append("alpha of the aircraft (%.6f) is not the returned trim alpha (%.6f)" % (a1[0], r["alpha"]))
        if abs(a1[1] - a0[1]) > 1e-7 or abs(a1[2] - a0[2]) > 1e-7 * a0[2]:
            bad.append("beta/airspeed changed (%s -> %s)" % (a0[1:], a1[1:]))
        for k, v in s0["controls"].items():
            want = r["elevator"] if k.endswith(".elevator") else v
            if abs(s1["controls"][k] - want) > 1e-9:
                bad.append("control %s is %.6f, expected %.6f" % (k, s1["controls"][k], want))
        for k in ("w", "q", "p"):
            if not np.allclose(s0[k], s1[k], rtol=1e-9, atol=1e-9):
                bad.append("%s changed" % k)
    elif mode == "trim_orient":
        st, cs = ret
        fresh = RM.Lab(make_spec(False, vals), symbolic=False).fresh({NAME: {"state": st, "controls": cs}})
        s2 = _real_state(fresh)
        for k in ("v", "w", "q", "p", "flaps"):
            if not np.allclose(s1[k], s2[k], rtol=1e-8, atol=1e-8):
                bad.append("%s of the aircraft differs from the returned state by %.3g" % (k, float(np.max(np.abs(s1[k] - s2[k])))))
        for k, v in s0["controls"].items():
            want = cs.get("elevator") if k.endswith(".elevator") else v
            if abs(s1["controls"][k] - want) > 1e-9:
                bad.append("control %s is %.6f, expected %.6f" % (k, s1["controls"][k], want))
        fm_a = _fm_vec(sc.solve_forces())
        fm_b = _fm_vec(fresh.solve_forces())
        if not np.allclose(fm_a, fm_b, rtol=1e-6, atol=1e-8):
            bad.append("loads of the scene differ from a fresh scene in the returned state by %.3g" % float(np.max(np.abs(fm_a - fm_b))))
    elif mode == "target":
        if abs(a1[0] - ret) > 1e-7:
            bad.append("alpha of the aircraft (%.6f) is not the returned alpha (%.6f)" % (a1[0], ret))
        if abs(a1[1] - a0[1]) > 1e-7 or abs(a1[2] - a0[2]) > 1e-7 * a0[2]:
            bad.append("beta/airspeed changed (%s -> %s)" % (a0[1:], a1[1:]))
    return bad


REPLAYS = {"same": replay_same}


def harness(ck, label, fn, mode, two=False):
    if two:
        label = label + " [two aircraft]"
    res = explore(lambda: run_one(fn, mode, two), assumptions=[z3.Real("CLt") > -2, z3.Real("CLt") < 2] + extra_assumptions(), max_paths=24, setup=setup_ctx)
    ck.add_paths(res)
    for p in res:
        lab = "%s path%s" % (label, "".join("1" if d else "0" for d in p.decisions))
        if not p.ok:
            ck.inconc("%s: %s %r %s" % (lab, p.kind, p.exc, (p.tb or "")[-500:]))
            continue
        v = p.value
        if v["exc"] is not None and type(v["exc"]).__name__ != "MaxIterationError":
            ck.note("%s raised %r (exception paths are C10's subject)" % (lab, v["exc"]))
            continue
        if v["exc"] is not None:
            continue   # MaxIterationError: nothing is claimed about the state after a failed trim
        base_facts = list(p.ctx.assumptions) + list(p.ctx.pc)

        def mk(ob, label=label, mode=mode, two=two):
            return Finding("same", {"label": label.replace(" [two aircraft]", ""), "mode": mode, "two": two, "vals": model_vals(ob.model)}, ob.label, ob.model)

        def facts_for(exprs):
            return base_facts + cone_defs(p.ctx, exprs)
        obs = []
        if mode == "same":
            diff = [(a, b) for a, b in zip(v["pre"], v["post"]) if a.get_id() != b.get_id()]
            if len(v["pre"]) != len(v["post"]):
                obs.append(Obligation(lab + " state shape", [], z3.BoolVal(False), meta={"finding": mk}))
            # group the differing components (they are few: velocity, flaps)
            for i in range(0, len(diff), 12):
                chunk = diff[i:i + 12]
                obs.append(Obligation("%s physical state unchanged [%d]" % (lab, i // 12), facts_for([x for pr in chunk for x in pr]),
                                      z3.And(*[a == b for a, b in chunk]), meta={"finding": mk}))
            if not diff:
                obs.append(Obligation(lab + " physical state unchanged", [], z3.BoolVal(True)))
            obs.append(Obligation(lab + " controls and base state unchanged", facts_for([]), AN.snap_equal(v["pre_snap"], v["post_snap"]), meta={"finding": mk}))
            obs[-1].facts = base_facts + cone_defs(p.ctx, [obs[-1].goal])
        else:
            obs += set_state_obligations(lab, v, mode, facts_for, mk)
        # _solved must not announce results of another state
        if v["solved"]:
            g = z3.And(*v["solved_terms"]) if v["solved_ok"] else z3.BoolVal(False)
            obs.append(Obligation(lab + " _solved flag refers to the current state", facts_for(list(v["solved_terms"])), g, meta={"finding": mk}))
        ck.add(obs)
        ck.add([Obligation(lab + " reach", base_facts, z3.BoolVal(True), witness=True)])
        if v["pre"]:
            same = [i for i, (a, b) in enumerate(zip(v["pre"], v["post"])) if a.get_id() == b.get_id() and not z3.is_rational_value(a)]
            k = same[0] if same else 0
            cg = v["pre"][k] == v["post"][k] + 1
            ck.add([Obligation(lab + " canary", AN.sliced_facts(p.ctx, cg), cg, canary=True)])
        if len(ck.samples) < 5:
            ck.sample({"analysis": label, "path": p.decisions, "LLsolve_calls": len(v["world"].calls), "state_components": len(v["pre"]),
                       "components_syntactically_changed": sum(1 for a, b in zip(v["pre"], v["post"]) if a.get_id() != b.get_id())})


def set_state_obligations(lab, v, mode, facts_for, mk):
    obs = []
    pre, post = v["pre_snap"][NAME], v["post_snap"][NAME]
    a0, a1 = v["pre_aero"], v["post_aero"]
    ret = v["ret"]

    def eq(x, y):
        return zexpr(SR(x)) == zexpr(SR(y))
    if mode == "trim":
        r = ret[NAME]
        terms = [eq(a1[0], r["alpha"]), eq(a1[1], a0[1]), eq(a1[2], a0[2])]
        terms += [a == b for a, b in zip(pre["w"] + pre["q"] + pre["p"], post["w"] + post["q"] + post["p"])]
        for k in pre["controls"]:
            terms.append(post["controls"][k] == (zexpr(SR(r["elevator"])) if k == "elevator" else pre["controls"][k]))
        g = z3.And(*terms)
        obs.append(Obligation(lab + " aircraft left in the returned trim state, other controls preserved", facts_for([g]), g, meta={"finding": mk}))
    elif mode == "target":
        terms = [eq(a1[0], ret), eq(a1[1], a0[1]), eq(a1[2], a0[2])]
        terms += [a == b for a, b in zip(pre["w"] + pre["q"] + pre["p"], post["w"] + post["q"] + post["p"])]
        g = z3.And(*terms)
        obs.append(Obligation(lab + " aircraft left at the returned alpha", facts_for([g]), g, meta={"finding": mk}))
    elif mode == "trim_orient":
        st, cs = ret
        fs = v["fresh_state"]
        diff = [(a, b) for a, b in zip(v["post"], fs) if a.get_id() != b.get_id()]
        if not diff:
            obs.append(Obligation("%s scene equals a fresh scene in the returned state" % lab, [], z3.BoolVal(len(fs) == len(v["post"]))))
        for i in range(0, len(diff), 12):
            chunk = diff[i:i + 12]
            obs.append(Obligation("%s scene equals a fresh scene in the returned state [%d]" % (lab, i // 12), facts_for([x for pr in chunk for x in pr]),
                                  z3.And(*[a == b for a, b in chunk]), meta={"finding": mk}))
        terms = []
        for k in pre["controls"]:
            terms.append(post["controls"][k] == (zexpr(SR(cs["elevator"])) if k == "elevator" else pre["controls"][k]))
        terms += [a == b for a, b in zip(pre["p"], post["p"])]
        g = z3.And(*terms)
        obs.append(Obligation(lab + " other controls and position preserved", facts_for([g]), g, meta={"finding": mk}))
    return obs


def main(tier, seed, only=None):
    ck = Check("C08", tier, seed, REPLAYS)
    facade.install()
    AN.patch_classes()
    import machupX.scene as SC
    ck.encoded(SC.Scene.stability_derivatives, SC.Scene.damping_derivatives, SC.Scene.control_derivatives, SC.Scene.state_derivatives,
               SC.Scene._determine_state_derivs, SC.Scene.derivatives, SC.Scene.aero_center, SC.Scene.distributions, SC.Scene.MAC,
               SC.Scene.get_aircraft_reference_geometry, SC.Scene.pitch_trim, SC.Scene.pitch_trim_using_orientation, SC.Scene.target_CL,
               SC.Scene._get_aircraft_pitch_trim_residuals, SC.Scene._get_aircraft_q_inf, SC.Scene.set_aircraft_control_state)
    ck.stub("LLsolve (uninterpreted function of the stored physical state, incl. per-section result arrays)", "AeroADT (abstract bijection x <-> (alpha, beta, V); wind / frame handling verbatim)",
            "np.linalg.solve on a symbolic 2x2 system: fresh solution vector constrained by J x = -R")
    ck.assume("reals, not floats", "unit quaternion away from gimbal lock (|q0 q2 - q1 q3| < 0.49)", "uniform symbolic wind",
              "trim loops unrolled: max_iterations = %d" % MAXIT, "nothing is claimed about the state after MaxIterationError")
    ck.out_of_claim("exports (STL/VTK/DXF/STP writers: C20)", "convergence of the trim iterations (C10)")
    tasks = []
    for label, fn, mode in analyses(tier):
        if only and not any(o in label for o in only):
            continue
        tasks.append((label, lambda c, label=label, fn=fn, mode=mode: harness(c, label, fn, mode)))
        if mode == "same" and label in ("stability_derivatives", "damping_derivatives", "control_derivatives", "aero_center", "distributions", "state_derivatives"):
            # scenes with a second aircraft: analyses over all aircraft must restore every one of them
            tasks.append((label + " two", lambda c, label=label, fn=fn, mode=mode: harness(c, label, fn, mode, two=True)))
    from symx.harness import run_parallel
    run_parallel(ck, tasks)
    ck.bound(aircraft="family member g5, N=8, concrete geometry", state="all symbolic (velocity, unit quaternion, position, rates, wind, controls, target CL)",
             loop_unrolling=MAXIT, max_paths=24)
    ck.rung("rung 1: stub-level harness for every analysis")
    return ck.finish()
