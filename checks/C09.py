"""C09 -- reported derivatives are the documented central differences of the loads.

The real stability_/damping_/control_/state_derivatives and derivatives() run symbolically (base state, wind, controls and
step sizes symbolic) with the lifting-line solve replaced by LLsolve (uninterpreted function of the stored physical state).
Every returned key is compared with a reference written from the documentation that perturbs the state through the public
API on freshly constructed scenes.
"""
import copy
import itertools

import numpy as np
import z3

from symx import facade, smt
from symx.explore import explore
from symx.harness import Check, Finding
from symx.smt import Obligation
from symx.values import SR, sym, zexpr, ctx, simp

from checks import analysis as AN
from checks import refmodels as RM
from checks.families import family_G

NAME = "plane"


def make_spec(symbolic, vals=None, member="g5", rate_frame="body", two=False):
    """scene spec with symbolic (or concrete, for replay) base state, wind and control inputs"""
    vals = vals or {}

    def S(n, default):
        if symbolic:
            return sym(n)
        return float(vals.get(n, default))
    wind = [S("W0", 12.0), S("W1", -7.0), S("W2", 3.0)]
    if rate_frame == "body":
        state = {"position": [S("px", 100.0), S("py", -50.0), S("pz", -1000.0)],
                 "velocity": [S("u", 98.0), S("v", 4.0), S("w", 9.0)],
                 "orientation": [S("q0", 0.96), S("q1", 0.1), S("q2", -0.2), S("q3", 0.15)],
                 "angular_rates": [S("wp", 0.05), S("wq", -0.03), S("wr", 0.02)]}
    else:
        state = {"position": [S("px", 100.0), S("py", -50.0), S("pz", -1000.0)],
                 "velocity": S("V", 100.0), "alpha": S("al", 4.0), "beta": S("be", -3.0),
                 "orientation": [S("q0", 0.96), S("q1", 0.1), S("q2", -0.2), S("q3", 0.15)],
                 "angular_rates": [S("wp", 0.05), S("wq", -0.03), S("wr", 0.02)], "angular_rate_frame": rate_frame}
    if not symbolic:
        q = np.array(state["orientation"], dtype=float)
        n = np.linalg.norm(q)
        state["orientation"] = list(q / n) if n > 1e-9 else [1.0, 0.0, 0.0, 0.0]
    controls = {"aileron": S("da", 2.0), "elevator": S("de", -1.5)}
    spec = {"scene": {"units": "English", "scene": {"atmosphere": {"rho": 0.0023769, "V_wind": wind}}},
            "aircraft": {NAME: {"input": family_G(member), "state": state, "controls": controls}}}
    if two:
        spec["aircraft"]["other"] = {"input": family_G("g1"), "state": {"position": [S("opx", 30.0), S("opy", 20.0), S("opz", -1010.0)],
                                                                         "velocity": [90.0, 0.0, 5.0]}, "controls": {}}
    return spec


def assumptions():
    return [z3.Real("dth") > 0]


def setup_ctx(c):
    c.declare_unit([sym("q%d" % i) for i in range(4)])


ANALYSES = {
    "stability": dict(method="stability_derivatives", step="dtheta", ref=lambda lab, h, kw: RM.ref_stability(lab, NAME, h, kw)),
    "damping": dict(method="damping_derivatives", step="dtheta_dot", ref=lambda lab, h, kw: RM.ref_damping(lab, NAME, h, kw)),
    "control": dict(method="control_derivatives", step="dtheta", ref=lambda lab, h, kw: RM.ref_control(lab, NAME, h, kw)),
}


def run_code(lab, which, step, kw):
    sc = lab.fresh()
    a = ANALYSES[which]
    res = getattr(sc, a["method"])(aircraft=NAME, **{a["step"]: step}, **kw)
    return res[NAME]


# ---- replay: the same comparison on the real code with plain floats --------------------------------------------
def replay_deriv(inp):
    which, kw = inp["which"], inp["kw"]
    tried = []
    rng = np.random.RandomState(inp.get("seed", 0))
    cands = [inp.get("vals", {})]
    for _ in range(3):
        cands.append({"W0": rng.uniform(-20, 20), "W1": rng.uniform(-20, 20), "W2": rng.uniform(-5, 5), "u": rng.uniform(80, 120), "v": rng.uniform(-8, 8),
                      "w": rng.uniform(2, 12), "q0": 1.0, "q1": rng.uniform(-.3, .3), "q2": rng.uniform(-.3, .3), "q3": rng.uniform(-.3, .3),
                      "wp": rng.uniform(-.1, .1), "wq": rng.uniform(-.1, .1), "wr": rng.uniform(-.1, .1), "da": rng.uniform(-3, 3), "de": rng.uniform(-3, 3),
                      "V": rng.uniform(80, 120), "al": rng.uniform(-3, 8), "be": rng.uniform(-5, 5)})
    with AN.real_classes():
        for vals in cands:
            vals = _sanitise(vals)
            spec = make_spec(False, vals, member=inp.get("member", "g5"), rate_frame=inp.get("rate_frame", "body"))
            lab = RM.Lab(spec, symbolic=False)
            step = float(inp.get("step", 0.5))
            try:
                if which == "state":
                    sc = lab.fresh()
                    got = sc.state_derivatives(aircraft=NAME, **kw)[NAME]
                    want = RM.ref_state_derivs(lab, NAME, kw.get("dx", 0.5), kw.get("dV", 0.5), kw.get("de", 0.001), kw.get("dw", 0.01), kw)
                elif which in ("union", "union_default"):
                    sc = lab.fresh()
                    d = sc.derivatives(aircraft=NAME, **kw)[NAME] if which == "union" else sc.derivatives(**kw)[NAME]
                    got = {}
                    for grp in ("stability", "damping", "control"):
                        for k2, v2 in d[grp].items():
                            got[grp + ":" + k2] = v2
                    want = {}
                    for grp, fn in (("stability", RM.ref_stability), ("damping", RM.ref_damping), ("control", RM.ref_control)):
                        for k2, v2 in fn(lab, NAME, 0.5 if grp != "damping" else 0.005, kw).items():
                            want[grp + ":" + k2] = v2
                else:
                    got = run_code(lab, which, step, kw)
                    want = ANALYSES[which]["ref"](lab, step, kw)
            except Exception as e:
                tried.append({"vals": vals, "error": repr(e)})
                continue
            bad = {}
            if set(got) != set(want):
                bad["__keys__"] = sorted(set(got) ^ set(want))
            if not all(np.isfinite(float(x)) for x in list(got.values()) + list(want.values())):
                tried.append({"vals": vals, "error": "non-finite results on both sides: not a state of the validity box"})
                continue
            for k in set(got) & set(want):
                g, w = float(got[k]), float(want[k])
                scale = max(abs(w), abs(g), 1e-3)
                if not abs(g - w) <= 1e-5 * scale + 1e-7:
                    bad[k] = (g, w)
            tried.append({"vals": vals, "n_bad": len(bad)})
            if bad:
                ks = sorted(bad)
                windy = any(abs(vals.get(n, 0.0)) > 1e-9 for n in ("W0", "W1", "W2"))
                key = "%s wrong keys: %s%s" % (which, _key_class(ks), " (under wind)" if windy and _needs_wind(inp, vals, which, kw) else "")
                return {"reproduced": True, "key": key, "observed": {"vals": vals, "bad": {k: bad[k] for k in ks[:6]}},
                        "what": "%s_derivatives at state %s: %d keys differ from the documented central differences, e.g. %s" % (which, vals, len(bad), {k: bad[k] for k in ks[:2]})}
    return {"reproduced": False, "why": "no difference beyond 1e-5 at %d concrete states" % len(tried), "observed": tried}


def _needs_wind(inp, vals, which, kw):
    """does the discrepancy vanish without wind?  (used only to name the finding precisely)"""
    v0 = dict(vals)
    v0.update({"W0": 0.0, "W1": 0.0, "W2": 0.0})
    spec = make_spec(False, v0, member=inp.get("member", "g5"), rate_frame=inp.get("rate_frame", "body"))
    lab = RM.Lab(spec, symbolic=False)
    step = float(inp.get("step", 0.5))
    try:
        if which == "state":
            got = lab.fresh().state_derivatives(aircraft=NAME, **kw)[NAME]
            want = RM.ref_state_derivs(lab, NAME, kw.get("dx", 0.5), kw.get("dV", 0.5), kw.get("de", 0.001), kw.get("dw", 0.01), kw)
        elif which in ("union", "union_default"):
            return True
        else:
            got = run_code(lab, which, step, kw)
            want = ANALYSES[which]["ref"](lab, step, kw)
    except Exception:
        return False
    for k in set(got) & set(want):
        g, w = float(got[k]), float(want[k])
        if not abs(g - w) <= 1e-5 * max(abs(w), abs(g), 1e-3) + 1e-7:
            return False
    return set(got) == set(want)


def _key_class(ks):
    if "__keys__" in ks:
        return "key set"
    suff = sorted(set(k.split(",")[-1] for k in ks))
    return "/".join(suff[:6])


def _sanitise(vals):
    out = {}
    for k, v in vals.items():
        try:
            out[k] = float(v)
        except Exception:
            pass
    # keep the state inside the validity box (positive airspeed, moderate angles, unit quaternion handled by make_spec)
    if "u" in out and out["u"] < 20.0:
        out["u"] = 80.0 + abs(out["u"]) % 40.0
    if "V" in out and out["V"] < 20.0:
        out["V"] = 80.0 + abs(out["V"]) % 40.0
    for k in ("al", "be"):
        if k in out and abs(out[k]) > 15.0:
            out[k] = float(np.sign(out[k])) * (abs(out[k]) % 15.0)
    for k in ("v", "w"):
        if k in out and abs(out[k]) > 15.0:
            out[k] = float(np.sign(out[k])) * (abs(out[k]) % 15.0)
    for k in ("W0", "W1", "W2"):
        if k in out and abs(out[k]) > 40.0:
            out[k] = float(np.sign(out[k])) * (abs(out[k]) % 40.0)
    for k in ("wp", "wq", "wr"):
        if k in out and abs(out[k]) > 0.3:
            out[k] = float(np.sign(out[k])) * (abs(out[k]) % 0.3)
    for k in ("da", "de"):
        if k in out and abs(out[k]) > 10.0:
            out[k] = float(np.sign(out[k])) * (abs(out[k]) % 10.0)
    return out


REPLAYS = {"deriv": replay_deriv}


def model_vals(model):
    vals = {}
    for k in ("W0", "W1", "W2", "u", "v", "w", "q0", "q1", "q2", "q3", "wp", "wq", "wr", "da", "de", "px", "py", "pz", "V", "al", "be"):
        if model and k in model:
            try:
                vals[k] = smt.frac(model[k])
            except Exception:
                pass
    return vals


def frame_sets(tier):
    if tier == "thorough":
        return [dict(body_frame=b, stab_frame=s, wind_frame=w) for b, s, w in itertools.product((True, False), repeat=3) if (b or s or w)]
    return [dict(), dict(body_frame=False, stab_frame=True, wind_frame=False)]


def compare(ck, lab_label, got, want, path, mkfinding, world, tol=None):
    from symx.rel import cone_defs
    base = list(path.ctx.assumptions) + list(path.ctx.pc)
    facts = base
    keys_g, keys_w = set(got), set(want)
    ob = Obligation("%s key set" % lab_label, [], z3.BoolVal(keys_g == keys_w), meta={"finding": mkfinding, "got_only": sorted(keys_g - keys_w), "want_only": sorted(keys_w - keys_g)})
    ck.add([ob])
    cong = world.congruence(world.calls, world.calls) if len(world.calls) <= 40 and False else []
    for k in sorted(keys_g & keys_w):
        if tol is None:
            goal = zexpr(SR(got[k])) == zexpr(SR(want[k]))
        else:
            # concrete default step sizes: 1/(2h) is rounded by the code, exact in the reference -> relative tolerance
            g, w_ = zexpr(SR(got[k])), zexpr(SR(want[k]))
            aw = z3.If(w_ >= 0, w_, -w_)
            goal = z3.And(g - w_ <= tol * aw, w_ - g <= tol * aw)
        ck.add([Obligation("%s %s" % (lab_label, k), base + cone_defs(path.ctx, [goal]), goal, meta={"finding": mkfinding})])
    some = sorted(keys_g & keys_w)
    if some:
        k = some[len(some) // 2]
        ck.add([Obligation("%s canary %s" % (lab_label, k), facts, zexpr(SR(got[k])) == zexpr(SR(want[k])) + 1, canary=True),
                Obligation("%s reach" % lab_label, facts, z3.BoolVal(True), witness=True)])


def harness(ck, which, kw, member="g5", rate_frame="body", tier="quick"):
    label = "%s[%s,%s,%s]" % (which, member, rate_frame, ",".join("%s=%s" % (k[:4], v) for k, v in sorted(kw.items())) or "default")

    def run():
        w = AN.new_world()
        spec = make_spec(True, member=member, rate_frame=rate_frame)
        lab = RM.Lab(spec, symbolic=True)
        step = sym("dth")
        if which == "state":
            steps = dict(dx=sym("dx"), dV=sym("dV"), de=sym("dde"), dw=sym("dw"))
            got = lab.fresh().state_derivatives(aircraft=NAME, **steps, **kw)[NAME]
            want = RM.ref_state_derivs(lab, NAME, steps["dx"], steps["dV"], steps["dde"] if False else steps["de"], steps["dw"], kw)
        elif which in ("union", "union_default"):
            # derivatives() == union of the three sets; named aircraft and (second variant) default step sizes
            if which == "union":
                stp = {"dtheta": step, "dtheta_dot": sym("dthdot")}
                d = lab.fresh().derivatives(aircraft=NAME, **stp, **kw)[NAME]
            else:
                stp = {"dtheta": 0.5, "dtheta_dot": 0.005}
                d = lab.fresh().derivatives(**kw)[NAME]
            got, want = {}, {}
            for grp in ("stability", "damping", "control"):
                for k2, v2 in d[grp].items():
                    got[grp + ":" + k2] = v2
            for grp, fn in (("stability", RM.ref_stability), ("damping", RM.ref_damping), ("control", RM.ref_control)):
                for k2, v2 in fn(lab, NAME, stp["dtheta"] if grp != "damping" else stp["dtheta_dot"], kw).items():
                    want[grp + ":" + k2] = v2
        else:
            got = run_code(lab, which, step, kw)
            want = ANALYSES[which]["ref"](lab, step, kw)
        return {"got": got, "want": want, "world": w}

    extra = [z3.Real(n) > 0 for n in ("dx", "dV", "dde", "dw")] if which == "state" else ([z3.Real("dthdot") > 0] if which == "union" else [])
    if rate_frame != "body":
        extra = list(extra) + [z3.Real("V") > 1]          # state given as airspeed / alpha / beta: positive airspeed (the documented domain)
    res = explore(run, assumptions=assumptions() + extra, max_paths=12, setup=setup_ctx)
    ck.add_paths(res)
    for p in res:
        lab = label + " path" + "".join("1" if d else "0" for d in p.decisions)
        if not p.ok:
            ck.inconc("%s: %s %r\n%s" % (lab, p.kind, p.exc, (p.tb or "")[-600:]))
            continue
        v = p.value

        def mk(ob, which=which, kw=kw, member=member, rate_frame=rate_frame):
            return Finding("deriv", {"which": which, "kw": kw, "member": member, "rate_frame": rate_frame, "vals": model_vals(ob.model), "step": 0.5 if which != "damping" else 0.005}, ob.label, ob.model)
        compare(ck, lab, v["got"], v["want"], p, mk, v["world"], tol=1e-12 if which == "union_default" else None)
        if len(ck.samples) < 4:
            ks = sorted(v["got"])
            ck.sample({"harness": label, "n_keys": len(ks), "LLsolve_calls": len(v["world"].calls), "aero_records": len(v["world"].aero),
                       "example_key": ks[0] if ks else None, "example_value": str(v["got"][ks[0]])[:200] if ks else None})


def main(tier, seed, only=None):
    ck = Check("C09", tier, seed, REPLAYS)
    facade.install()
    AN.patch_classes()
    import machupX.scene as SC
    ck.encoded(SC.Scene.stability_derivatives, SC.Scene.damping_derivatives, SC.Scene.control_derivatives, SC.Scene.state_derivatives,
               SC.Scene._determine_state_derivs, SC.Scene.derivatives, SC.Scene._get_aircraft, SC.Scene._get_frames,
               SC.Scene.get_aircraft_reference_geometry, SC.Scene.add_aircraft, SC.Scene._perform_geometry_and_atmos_calcs)
    import machupX.airplane as AP
    ck.encoded(AP.Airplane.set_state, AP.Airplane.set_control_state, AP.Airplane.get_state)
    ck.stub("LLsolve: Scene.solve_forces replaced by an uninterpreted function of the stored physical state (cached Earth-frame arrays, v, w, flaps, atmosphere, q, p); equal states give equal results, nothing else assumed",
            "AeroADT: the trig parametrisation inside Airplane.get/set_aerodynamic_state replaced by an abstract bijection x <-> (alpha, beta, V); frame/wind handling kept verbatim; the round-trip laws of the real pair are C08's lemma")
    ck.assume("reals, not floats", "unit orientation quaternion, positive step sizes", "uniform wind (symbolic vector); constant density",
              "static margin reference: -Cm_w,a / CL,a * 100 (pitching moment in the wind frame, as no documentation defines it otherwise)")
    fs = frame_sets(tier)
    plan = []
    for kw in fs:
        plan += [("stability", kw, "body"), ("damping", kw, "body"), ("control", kw, "body")]
    plan += [("state", {}, "body"), ("union", {}, "body"), ("union_default", {}, "body")]
    plan += [("damping", {}, "stab"), ("damping", {}, "wind")]
    if tier == "thorough":
        plan += [("damping", dict(body_frame=True, stab_frame=True, wind_frame=True), "stab"), ("damping", dict(body_frame=True, stab_frame=True, wind_frame=True), "wind"),
                 ("union", dict(stab_frame=True), "body")]
        # ("stability", {}, "stab") was removed: with rates *given* in stability axes my reference re-expresses them at the perturbed alpha while the
        # code keeps the body rates fixed; which of the two the documentation means is not stated, so the case has no oracle (see DESIGN 9.4, false alarms)
    tasks = []
    for which, kw, rf in plan:
        if only and which not in only:
            continue
        tasks.append(("%s/%s/%s" % (which, rf, kw), lambda c, which=which, kw=kw, rf=rf: harness(c, which, kw, rate_frame=rf, tier=tier)))
    from symx.harness import run_parallel
    run_parallel(ck, tasks)
    ck.bound(aircraft="family member g5 (wing + tail, aileron antisymmetric, elevator symmetric), N=2 per semispan, concrete geometry",
             state="body velocity, unit quaternion, position, body rates, wind vector, control inputs, step sizes: all symbolic",
             frames="%d output-frame selections; rate frames body/stab/wind" % len(fs), max_paths=12)
    ck.rung("rung 1: stub-level harness for every derivative family")
    return ck.finish()
