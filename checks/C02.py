"""C02 -- loads are the correct integral of section loads and all reports agree.

The real Scene._integrate_forces_and_moments and Scene.distributions run on an *arbitrary symbolic pre-state* (circulation,
local velocities, density, section geometry, unit vectors, CG arms, aircraft attitude / velocity / wind / reference
quantities: all fresh symbols; section coefficients: uninterpreted functions) for the lattice of solver and output options,
and every entry of the results dictionary is compared by z3 with a ~60 line reference model written from the property
statement.  Key sets are compared exactly.
"""
import itertools

import numpy as np
import z3

from symx import facade, smt
from symx.explore import explore
from symx.harness import Check, Finding, run_parallel
from symx.smt import Obligation
from symx.values import SR, sym, zexpr, ctx, simp
from symx.rel import cone_defs, Aligner

from checks import kernel as K


def option_sets(tier):
    solver_all = [dict(use_swept_sections=a, use_total_velocity=b, use_in_plane=c) for a, b, c in itertools.product((True, False), repeat=3)]
    out_all = []
    for body, stab, wind, dim, nd, seg in itertools.product((True, False), repeat=6):
        if not (body or stab or wind) or not (dim or nd):
            continue
        out_all.append(dict(body_frame=body, stab_frame=stab, wind_frame=wind, dimensional=dim, non_dimensional=nd, report_by_segment=seg))
    if tier == "thorough":
        # every solver option set with the full-output set, plus the whole output lattice on the default solver options
        plan = [(s, dict(body_frame=True, stab_frame=True, wind_frame=True, dimensional=True, non_dimensional=True, report_by_segment=True)) for s in solver_all]
        plan += [(solver_all[0], o) for o in out_all]
        return plan
    full = dict(body_frame=True, stab_frame=True, wind_frame=True, dimensional=True, non_dimensional=True, report_by_segment=True)
    plan = [(solver_all[0], full), (solver_all[7], full), (dict(use_swept_sections=True, use_total_velocity=False, use_in_plane=True), full),
            (dict(use_swept_sections=False, use_total_velocity=True, use_in_plane=False), dict(body_frame=True, stab_frame=False, wind_frame=True, dimensional=False, non_dimensional=True, report_by_segment=False)),
            (solver_all[0], dict()),   # API defaults
            (solver_all[0], dict(body_frame=False, stab_frame=True, wind_frame=False, dimensional=True, non_dimensional=False, report_by_segment=True)),
            (solver_all[0], dict(body_frame=False, stab_frame=False, wind_frame=True, dimensional=False, non_dimensional=True, report_by_segment=True))]
    return plan


def run_case(members, N, solver, opts):
    from symx.rel import Cut, name_array
    sc = K.build_scene(members, N=N, solver=solver)
    st = K.symbolise_for_integration(sc)
    c = ctx()
    c.assumptions.extend(K.unit_assumptions(sc))
    # cut points at the four per-section load arrays (attribute assignments inside _integrate_forces_and_moments):
    # the computed values are recorded and replaced by fresh names; the bookkeeping after the cut is checked on the names
    code_sec = {}
    cut_defs = []

    def cut(name, value):
        code_sec[name] = value
        return name_array("cut" + name, value, record=cut_defs)
    cutter = Cut(sc, {"_dF_inv": cut, "_dM_inv": cut, "_dF_visc": cut, "_dM_visc": cut})
    try:
        sc._integrate_forces_and_moments(**opts)
    finally:
        cutter.remove()
    got = K.flatten_fm(sc._FM)
    n_code = len(c.events)
    ref_sec = K.ref_sections(sc, st)
    named = {"dF_inv": sc._dF_inv, "dM_inv": sc._dM_inv, "dF_visc": sc._dF_visc, "dM_visc": sc._dM_visc}
    want = K.flatten_fm(K.ref_totals(sc, st, opts, named))
    # distributions: per-section body-frame loads (real code, reading the arrays the integration just produced)
    sc._solved = True
    dist = sc.distributions()
    dsum = {}
    for ac, d in dist.items():
        tot = {k: SR(0.0) for k in ("Fx", "Fy", "Fz", "Mx", "My", "Mz")}
        for seg, dd in d.items():
            for k in tot:
                for v in dd[k]:
                    tot[k] = tot[k] + v
        dsum[ac] = tot
    return {"got": got, "want": want, "n_code": n_code, "dsum": dsum, "dist_keys": {ac: {seg: sorted(dd.keys()) for seg, dd in d.items()} for ac, d in dist.items()},
            "N": sc._N, "names": [ap.name for ap in sc._airplane_objects], "code_sec": code_sec, "ref_sec": ref_sec, "cut_defs": [s_ == d for s_, d in cut_defs]}


DIST_KEYS = sorted(["span_frac", "cpx", "cpy", "cpz", "chord", "swept_chord", "twist", "dihedral", "sweep", "aero_sweep", "area", "alpha", "delta_flap", "u", "v", "w",
                    "Re", "M", "q", "section_CL", "section_Cm", "section_parasitic_CD", "section_aL0", "Fx", "Fy", "Fz", "Mx", "My", "Mz", "circ", "CD_i"])


def harness(ck, members, N, solver, opts, label):
    res = explore(lambda: run_case(members, N, solver, opts), max_paths=4)
    ck.add_paths(res)
    for p in res:
        lab = "%s path%s" % (label, "".join("1" if d else "0" for d in p.decisions))
        if not p.ok:
            ck.inconc("%s: %s %r %s" % (lab, p.kind, p.exc, (p.tb or "")[-500:]))
            continue
        v = p.value
        c = p.ctx
        got, want = v["got"], v["want"]

        def mk(ob, members=members, N=N, solver=solver, opts=opts):
            return Finding("loads", {"members": list(members), "N": N, "solver": solver, "opts": opts, "key": ob.meta.get("key")}, ob.label, ob.model)
        ck.add([Obligation(lab + " key set", [], z3.BoolVal(set(got) == set(want)),
                           meta={"finding": mk, "extra": sorted(set(got) - set(want))[:5], "missing": sorted(set(want) - set(got))[:5]})])
        base = list(c.assumptions) + list(c.pc)
        # align reference atoms with code atoms (sqrt / inv of the same quantities computed in another association)
        # (no atom alignment needed here: reference and code request the same atoms except for normalisation constants,
        #  which the obligations handle through the cone-of-influence definitions)
        facts0 = base
        # stage 1: the per-section load arrays at the cut points
        for nm in ("dF_inv", "dM_inv", "dF_visc", "dM_visc"):
            cs, rs = v["code_sec"].get("_" + nm), v["ref_sec"][nm]
            if cs is None or len(cs) != len(rs):
                ck.add([Obligation("%s section array %s present" % (lab, nm), [], z3.BoolVal(False), meta={"finding": mk, "key": nm})])
                continue
            for i in range(len(rs)):
                goal = z3.And(*[zexpr(SR(cs[i][a])) == zexpr(SR(rs[i][a])) for a in range(3)])
                # arrays computed after an earlier cut refer to its names: their definitions are facts here
                from symx.rel import vars_of
                gv = set(vars_of(goal).keys())
                defs_needed = [d for d in v["cut_defs"] if d.arg(0).get_id() in gv]
                ck.add([Obligation("%s section %d %s" % (lab, i, nm), facts0 + defs_needed + cone_defs(c, [goal] + defs_needed), goal, meta={"finding": mk, "key": nm})])
        # stage 2: bookkeeping on the named section loads
        keys = sorted(set(got) & set(want))
        for k in keys:
            goal = zexpr(SR(got[k])) == zexpr(SR(want[k]))
            ck.add([Obligation("%s %s" % (lab, k), facts0 + cone_defs(c, [goal]), goal, meta={"finding": mk, "key": k})])
        # per-section distributions sum to the totals (body frame, dimensional)
        for ac in v["names"]:
            for k in ("Fx", "Fy", "Fz", "Mx", "My", "Mz"):
                kk = "%s/total/%s" % (ac, k)
                if kk in got:
                    goal = zexpr(v["dsum"][ac][k]) == zexpr(SR(got[kk]))
                    ck.add([Obligation("%s distributions sum %s" % (lab, kk), facts0 + cone_defs(c, [goal]), goal, meta={"finding": mk, "key": "dist:" + kk})])
            for seg, ks in v["dist_keys"][ac].items():
                ck.add([Obligation("%s distributions key set %s/%s" % (lab, ac, seg), [], z3.BoolVal(ks == DIST_KEYS), meta={"finding": mk, "key": "distkeys"})])
        if keys:
            k = keys[len(keys) // 3]
            ck.add([Obligation(lab + " canary", facts0, zexpr(SR(got[k])) == zexpr(SR(want[k])) + 1, canary=True),
                    Obligation(lab + " reach", base, z3.BoolVal(True), witness=True)])
        if len(ck.samples) < 3:
            ck.sample({"case": label, "N": v["N"], "keys": len(keys), "example_key": keys[0] if keys else None,
                       "code_value": str(got[keys[0]])[:300] if keys else None})


def harness_assembly(ck, member):
    """moments are taken about *that aircraft's CG*: the moment arms stored by the real assembly are PC - (p + R(q) CG) for arbitrary pose"""
    import machupX as MX
    from machupX.helpers import quat_inv_trans
    from checks.families import family_G

    def run():
        c = ctx()
        q = [sym("aq%d" % i) for i in range(4)]
        c.declare_unit(q)
        pv = [sym("apx"), sym("apy"), sym("apz")]
        sc = MX.Scene({"units": "English", "scene": {"atmosphere": {"rho": 0.0023769}}})
        sc.add_aircraft("p", family_G(member, N=2), state={"velocity": [100.0, 0.0, 5.0]})
        sc.add_aircraft("o", family_G("g3", N=2), state={"velocity": [100.0, 0.0, 5.0], "position": [20.0, 10.0, -5.0], "orientation": [5.0, 10.0, 15.0]})
        ap = sc._airplanes["p"]
        ap.q = facade.wrap(np.array(q, dtype=object))
        ap.p_bar = facade.wrap(np.array(pv, dtype=object))
        sc._perform_geometry_and_atmos_calcs()
        out = []
        for apx, sl in zip(sc._airplane_objects, sc._airplane_slices):
            cg_e = apx.p_bar + quat_inv_trans(apx.q, apx.CG)
            for i in range(sl.start, sl.stop):
                out.append((sc._r_CG[i], [sc._PC[i][a] - cg_e[a] for a in range(3)]))
        return out
    res = explore(run, max_paths=3)
    ck.add_paths(res)
    for p in res:
        if not p.ok:
            ck.inconc("assembly %s: %s %r" % (member, p.kind, p.exc))
            continue
        mk = lambda ob: Finding("loads", {"members": [member], "N": 2, "solver": {}, "opts": {}}, ob.label, ob.model)
        for i, (got, want) in enumerate(p.value):
            if all(SR(x).c is not None for x in list(got) + list(want)):
                # the second (concrete) aircraft: floating-point evaluation on both sides, compared with a tolerance
                g = z3.BoolVal(bool(np.allclose([float(x) for x in got], [float(x) for x in want], rtol=1e-12, atol=1e-12)))
            else:
                # body-frame PC - CG is rounded once by the code (floats) before it is rotated: compare within 1e-9 (lengths are O(1..10))
                terms = []
                for a in range(3):
                    d = zexpr(SR(got[a])) - zexpr(SR(want[a]))
                    terms += [d <= z3.RealVal("1e-9"), -d <= z3.RealVal("1e-9")]
                g = z3.And(*terms)
            ck.add([Obligation("assembly %s moment arm %d == control point - CG (Earth frame)" % (member, i), list(p.ctx.assumptions) + cone_defs(p.ctx, [g]), g, meta={"finding": mk})])
        ck.add([Obligation("assembly %s canary" % member, list(p.ctx.assumptions), zexpr(SR(p.value[0][0][0])) == zexpr(SR(p.value[0][1][0])) + 1, canary=True)])


# ---- replay: the same reference against the real code with floats ---------------------------------------------------------
def replay_loads(inp):
    """Concrete scene (real solver), then the reference integration from the scene's own section arrays, compared key by key."""
    import machupX as MX
    from checks.families import family_G
    from symx.facade import real
    from checks.analysis import real_classes
    rng = np.random.RandomState(3)
    bad_all = {}
    with real_classes():
        for trial in range(2):
            sc = MX.Scene({"units": "English", "solver": dict(inp["solver"]), "scene": {"atmosphere": {"rho": "standard", "V_wind": [5.0, -3.0, 1.0]}}})
            for i, m in enumerate(inp["members"]):
                sc.add_aircraft("ac%d" % i, family_G(m, N=inp["N"]), state={"velocity": [100.0 + 5 * i, 3.0 * (trial + 1), 6.0], "position": [40.0 * i, 15.0 * i, -2000.0 - 500.0 * i],
                                                                              "orientation": [5.0 + 10 * trial, 4.0 - 3 * i, 20.0 * (i + 1)], "angular_rates": [0.05, -0.02, 0.03]})
            fm = sc.solve_forces(**inp["opts"])
            got = {k: float(v) for k, v in K.flatten_fm(fm).items()}
            want = _ref_float(sc, inp["opts"])
            dist = sc.distributions()
            for ac, d in dist.items():
                for k in ("Fx", "Fy", "Fz", "Mx", "My", "Mz"):
                    kk = "%s/total/%s" % (ac, k)
                    if kk in got:
                        s_ = sum(sum(dd[k]) for dd in d.values())
                        if abs(s_ - got[kk]) > 1e-8 * max(1.0, abs(got[kk])):
                            bad_all["dist:" + kk] = (s_, got[kk])
            if set(got) != set(want):
                bad_all["__keys__"] = sorted(set(got) ^ set(want))[:6]
            for k in set(got) & set(want):
                if abs(got[k] - want[k]) > 1e-8 * max(1.0, abs(want[k]), abs(got[k])):
                    bad_all[k] = (got[k], want[k])
            if bad_all:
                break
    if bad_all:
        ks = sorted(bad_all)
        cls = sorted(set(k.split("/")[-1] if "/" in k else k for k in ks))
        return {"reproduced": True, "key": "loads: " + ",".join(cls[:8]), "observed": {k: bad_all[k] for k in ks[:8]},
                "what": "solve_forces(%s) with solver %s: %d entries differ from the integral of the section loads, e.g. %s" % (inp["opts"], inp["solver"], len(ks), {k: bad_all[k] for k in ks[:3]})}
    return {"reproduced": False, "why": "all entries agree with the reference integral on two concrete scenes"}


def _ref_float(sc, opts):
    """float version of kernel.ref_loads using the arrays of a solved real scene"""
    import numpy as np
    from machupX.helpers import quat_trans, quat_inv_trans
    st = {"_v_inf_and_rot": None}
    out = {}
    v = sc._v_i
    idx = 0
    for ap in sc._airplane_objects:
        q = ap.q
        vinf = -ap.v + sc._get_wind(ap.p_bar)
        Vinf = np.linalg.norm(vinf)
        u_inf = quat_trans(q, vinf / Vinf)
        yb = np.array([0.0, 1.0, 0.0])
        ul = np.cross(u_inf, yb); ul /= np.linalg.norm(ul)
        us_ = np.cross(ul, u_inf); us_ /= np.linalg.norm(us_)
        ux = np.cross(ul, yb); ux /= np.linalg.norm(ux)
        rot = {"wind": np.array([u_inf, us_, ul]), "stab": np.array([ux, yb, -ul])}
        nd = 1.0 / (0.5 * sc._get_density(ap.p_bar) * Vinf ** 2 * ap.S_w)
        res = {"total": {}, "inviscid": {}, "viscous": {}}
        segs = []
        for seg in ap.segments:
            Finv = np.zeros(3); Fvis = np.zeros(3); Minv = np.zeros(3); Mvis = np.zeros(3)
            for i in range(idx, idx + seg.N):
                vi = v[i]
                V2 = vi @ vi
                dFi = sc._rho[i] * sc._gamma[i] * np.cross(vi, sc._dl[i])
                if sc._use_total_velocity:
                    qfull = 0.5 * sc._rho[i] * V2 * sc._dS[i]
                    udrag = vi / np.sqrt(V2)
                    if sc._use_in_plane:
                        vp = vi - sc._u_s[i] * (vi @ sc._u_s[i])
                        qpl = 0.5 * sc._rho[i] * (vp @ vp) * sc._dS[i]
                    else:
                        qpl = qfull
                else:
                    qfull = 0.5 * sc._rho[i] * sc._V_inf[i] ** 2 * sc._dS[i]
                    udrag = sc._u_inf[i]
                    qpl = 0.5 * sc._rho[i] * sc._V_inf_in_plane[i] ** 2 * sc._dS[i] if sc._use_in_plane else qfull
                dFv = qfull * sc._CD[i] * udrag
                Finv += dFi; Fvis += dFv
                arm = sc._PC[i] - (ap.p_bar + quat_inv_trans(q, ap.CG))       # moment arm about this aircraft's CG, independent of the stored _r_CG
                Minv += np.cross(arm, dFi) + qpl * sc._c_bar[i] * sc._Cm[i] * sc._u_s[i]
                Mvis += np.cross(arm, dFv)
            idx += seg.N
            segs.append((seg.name, [quat_trans(q, x) for x in (Finv, Minv, Fvis, Mvis)]))
        frames = [f for f, on in (("body", opts.get("body_frame", True)), ("stab", opts.get("stab_frame", False)), ("wind", opts.get("wind_frame", True))) if on]
        KEYS = {("body", "d"): ["Fx", "Fy", "Fz", "Mx", "My", "Mz"], ("body", "nd"): ["Cx", "Cy", "Cz", "Cl", "Cm", "Cn"],
                ("stab", "d"): ["Fx_s", "Fy_s", "Fz_s", "Mx_s", "My_s", "Mz_s"], ("stab", "nd"): ["Cx_s", "Cy_s", "Cz_s", "Cl_s", "Cm_s", "Cn_s"],
                ("wind", "d"): ["FD", "FS", "FL", "Mx_w", "My_w", "Mz_w"], ("wind", "nd"): ["CD", "CS", "CL", "Cl_w", "Cm_w", "Cn_w"]}
        lens = [1.0, 1.0, 1.0, ap.l_ref_lat, ap.l_ref_lon, ap.l_ref_lat]
        for f in frames:
            tf = (lambda x: x) if f == "body" else (lambda x, R=rot[f]: R @ x)
            ti = np.zeros(6); tv = np.zeros(6)
            for sname, (Fi, Mi, Fv, Mv) in segs:
                a6 = np.concatenate([tf(Fi), tf(Mi)]); b6 = np.concatenate([tf(Fv), tf(Mv)])
                ti += a6; tv += b6
                if opts.get("report_by_segment", False):
                    for kind, on in (("d", opts.get("dimensional", True)), ("nd", opts.get("non_dimensional", True))):
                        if on:
                            for a, key in enumerate(KEYS[(f, kind)]):
                                s_ = 1.0 if kind == "d" else nd / lens[a]
                                res["inviscid"].setdefault(key, {})[sname] = a6[a] * s_
                                res["viscous"].setdefault(key, {})[sname] = b6[a] * s_
            for kind, on in (("d", opts.get("dimensional", True)), ("nd", opts.get("non_dimensional", True))):
                if on:
                    for a, key in enumerate(KEYS[(f, kind)]):
                        s_ = 1.0 if kind == "d" else nd / lens[a]
                        res["inviscid"].setdefault(key, {})["total"] = ti[a] * s_
                        res["viscous"].setdefault(key, {})["total"] = tv[a] * s_
                        res["total"][key] = (ti[a] + tv[a]) * s_
        out[ap.name] = res
    return {k: float(v) for k, v in K.flatten_fm(out).items()}


REPLAYS = {"loads": replay_loads}


def main(tier, seed, only=None):
    ck = Check("C02", tier, seed, REPLAYS)
    ck.portfolio = (("/usr/bin/z3", 1.0), ("z3api", 1.0), ("cvc5", 1.0))     # z3 4.8.12 is the fastest on these polynomial identities
    facade.install()
    import machupX.scene as SC
    ck.encoded(SC.Scene._integrate_forces_and_moments, SC.Scene.distributions, SC.Scene._calc_v_i, SC.Scene._get_frames, SC.Scene._perform_geometry_and_atmos_calcs)
    import machupX.helpers as H
    ck.encoded(H.quat_trans, H.quat_inv_trans)
    ck.stub("airfoil: section coefficients are uninterpreted functions of (airfoil, coefficient, alpha, Re, M, flap deflection, flap fraction) per control point",
            "atmosphere getters at the aircraft origin: fresh symbols per aircraft (density) and one symbolic wind vector",
            "induced velocities: _V_ji = 0 and a symbolic _v_inf_and_rot make the local velocity v_i an arbitrary symbolic array")
    ck.assume("reals, not floats", "unit attitude quaternion per aircraft", "the values of the section coefficients CD, Cm are taken as evaluated by the code (their evaluation / blending is C16's subject)")
    plan = option_sets(tier)
    cases = [(("g1",), 2, "g1 N=4"), (("g3",), 2, "g3 one-sided N=4")]
    if tier == "thorough":
        cases += [(("g2",), 2, "g2 wing+fin N=7"), (("g1", "g3"), 2, "two aircraft N=8")]
    else:
        cases += [(("g1", "g3"), 2, "two aircraft N=8")]
    tasks = []
    for ci, (members, N, cname) in enumerate(cases):
        for si, (solver, opts) in enumerate(plan):
            if ci > 0 and si not in (0, 4) and tier != "thorough":
                continue
            label = "%s solver=%s opts=%s" % (cname, "".join("1" if solver[k] else "0" for k in sorted(solver)), "".join("1" if opts.get(k, d) else "0" for k, d in
                                              (("body_frame", True), ("stab_frame", False), ("wind_frame", True), ("dimensional", True), ("non_dimensional", True), ("report_by_segment", False))))
            if only and not any(o in label for o in only):
                continue
            tasks.append((label, lambda c, members=members, N=N, solver=solver, opts=opts, label=label: harness(c, members, N, solver, opts, label)))
    if not only or "assembly" in only:
        tasks.append(("assembly g1", lambda c: harness_assembly(c, "g1")))
        tasks.append(("assembly g3", lambda c: harness_assembly(c, "g3")))
    run_parallel(ck, tasks)
    ck.bound(sections="N <= 7 vortices per aircraft, N <= 8 per scene, <= 2 aircraft, <= 4 segments", option_sets=len(plan), pre_state="all arrays fresh symbols (any geometry of that size)")
    ck.rung("rung 2: kernel harness on arbitrary pre-states")
    return ck.finish()
