"""C04 -- mirror symmetry: the reflected aircraft in the reflected state carries the reflected loads.

Hmirror  twin run of the numeric pipeline (assembly in the Earth frame, invariant flow properties, lifting-line residual for an
         arbitrary circulation, load integration in body / stability / wind frames, per segment) on an aircraft A and on its
         mirror image B (left<->right, CG-y negated; orientation, position, velocity, wind reflected; angular rates reflected as
         a pseudo-vector), all state symbolic.  Rows of B correspond to rows of A through the permutation found by matching the
         reflected control points.  Cut points carry the relation forward: true vectors -> M x, moments -> -M x, scalars equal.
         Final obligations: residual_B[i] == residual_A[perm i]; Fx,Fz,My,CL,CD,Cx,Cz,Cm equal; Fy,Mx,Mz,CS,Cy,Cl,Cn negated, in
         every frame, total and per segment (segment names swap _left/_right).
Hgeom    the body-frame geometry the two Airplane objects store (computed concretely by wing_segment.py / airplane.py from the two
         descriptions) is compared entry by entry under the reflection (node 0 <-> node 1 because a left segment is stored
         tip-to-root), tolerance 1e-12; attributes that agree are replaced in B by the exact image of A's so that the symbolic
         pipeline reasons over exact rationals (floating-point geometry differs in the last bits, which no exact solver forgives).
"""
import copy

import numpy as np
import z3

from symx import facade, smt
from symx.explore import explore
from symx.harness import Check, Finding, run_parallel
from symx.smt import Obligation
from symx.values import SR, sym, zexpr, ctx, simp, exact, Ctx
from symx.facade import wrap

from checks.families import family_G, UFAirfoil, use_airfoil
from checks import kernel as K
from checks import twin as TW

MVEC = (1.0, -1.0, 1.0)
NEG_KEYS = ("Fy", "Mx", "Mz", "FS", "Cy", "Cl", "Cn", "CS")       # components that change sign (any frame suffix _s / _w)
GEOM_TOL = 1e-12


# body-frame arrays the Scene pipeline reads from an Airplane
PIPE_ATTRS = ("PC", "PC_CG", "dl", "u_a", "u_n", "u_s", "u_a_unswept", "u_n_unswept", "u_s_unswept", "P0", "P1", "P0_eff", "P1_eff", "P0_joint", "P1_joint",
              "P0_joint_eff", "P1_joint_eff", "r_0", "r_1", "r_0_joint", "r_1_joint", "r_0_mag", "r_1_mag", "r_0_joint_mag", "r_1_joint_mag",
              "r_0_r_0_joint_mag", "r_0_r_1_mag", "r_1_r_1_joint_mag", "c_bar", "dS", "section_sweep", "CG")


class GeometryMismatch(Exception):
    pass


def mirror_dict(d):
    d = copy.deepcopy(d)
    d["CG"][1] = -d["CG"][1]
    for w in d["wings"].values():
        w["side"] = {"left": "right", "right": "left", "both": "both"}[w["side"]]
        ct = w.get("connect_to", {})
        if "dy" in ct:
            ct["dy"] = -ct["dy"]          # y_offset is measured outward on either side and stays
    return d


def member(name, N):
    """family G plus one member local to this check: a one-sided chain whose parent is mounted with a y_offset and whose child is
    placed relative to the parent's *root* (the placement rule that treats the two sides through separate sign conventions)"""
    if name == "g6":
        from checks.families import simple_airplane
        d = simple_airplane(N=N, reid=False, sweep=6.0, dihedral=3.0, cg=(-0.2, 0.05, 0.0))
        d["wings"]["main"]["side"] = "left"
        d["wings"]["main"]["connect_to"] = {"ID": 0, "y_offset": 0.35}
        d["wings"]["tail"] = {"ID": 2, "side": "left", "is_main": False, "connect_to": {"ID": 1, "location": "root", "dx": -3.0, "dz": -0.2},
                              "semispan": 1.5, "chord": 0.5, "sweep": 10.0, "airfoil": "a2", "grid": {"N": N, "reid_corrections": False}}
        return d
    if name == "k1":      # one-sided swept wing with the Kuchemann lifting-line offset (the locus depends on the sign conventions of sweep per side)
        from checks.families import simple_airplane
        d = simple_airplane(N=N, reid=False, sweep=18.0, dihedral=2.0, cg=(-0.2, 0.03, 0.0))
        d["wings"]["main"]["side"] = "right"
        d["wings"]["main"]["ll_offset"] = "kuchemann"
        return d
    return family_G(name, N=N)


def _swap01(name):
    if name.startswith(("P0", "P1", "r_0", "r_1")):
        s = name.replace("0", "#").replace("1", "0").replace("#", "1")
        return s
    return name


def _floats(v):
    """concrete float copy of an array attribute (SA of concrete SR under the facade), None when not an all-concrete array"""
    if not isinstance(v, np.ndarray) or v.ndim < 1:
        return None
    if v.dtype == float:
        return np.array(v)
    if v.dtype != object:
        return None
    out = np.empty(v.shape)
    for i in np.ndindex(v.shape):
        x = v[i]
        if isinstance(x, SR):
            if x.c is None:
                return None
            out[i] = x.c
        elif isinstance(x, (int, float, np.floating)):
            out[i] = float(x)
        else:
            return None
    return out


def relate_geometry(apA, apB):
    """returns (perm, report, mismatches); substitutes into apB the exact image of apA's arrays where they agree within GEOM_TOL"""
    M = np.array(MVEC)
    N = apA.N
    pcA, pcB = _floats(apA.PC), _floats(apB.PC)
    perm = [int(np.argmin(np.abs(pcB[i] - M * pcA).sum(axis=1))) for i in range(N)]
    report, bad = [], []
    if sorted(perm) != list(range(N)) or apB.N != N:
        return None, report, ["control points of the mirrored aircraft are not the reflected control points"]
    for k, v in sorted(vars(apA).items()):
        v = _floats(v)
        if v is None or v.shape[0] != N or k in ("q", "v", "w", "p_bar", "CG"):
            continue
        src = _floats(getattr(apA, _swap01(k), None))
        if src is None or src.shape != v.shape:
            src = v
        if src.ndim == 3 or (src.ndim == 2 and src.shape[1] == N and N != 3):
            img0 = src[np.ix_(perm, perm)]         # pair arrays [control point, vortex]
        else:
            img0 = src[perm]
        w = _floats(getattr(apB, k, None))
        if w is None:
            bad.append(k)
            continue
        cands = [("equal", img0), ("negated", -img0)]
        if img0.shape[-1] == 3 and img0.ndim >= 2:
            cands = [("reflected", img0 * M), ("reflected and reversed", -img0 * M)] + cands
        for nm, t in cands:
            if t.shape == w.shape and np.all(np.abs(t - w) <= GEOM_TOL):
                setattr(apB, k, wrap(t.astype(object)))
                report.append((k, nm, float(np.abs(t - w).max()) if t.size else 0.0))
                break
        else:
            bad.append(k)
    return perm, report, bad


def sign_of(key):
    last = key.split("/")
    comp = last[2] if len(last) >= 3 else last[-1]
    base = comp.split("_")[0]
    return -1.0 if base in NEG_KEYS else 1.0


def mirror_key(key):
    parts = key.split("/")
    if len(parts) == 4:
        s = parts[3]
        if s.endswith("_left"):
            parts[3] = s[:-5] + "_right"
        elif s.endswith("_right"):
            parts[3] = s[:-6] + "_left"
    return "/".join(parts)


def build(desc, st, solver, N, airfoil=None):
    import machupX as MX
    use_airfoil(airfoil or UFAirfoil)
    try:
        sc = MX.Scene({"units": "English", "solver": dict(solver), "scene": {"atmosphere": {"rho": 0.0023769, "V_wind": list(st["W"])}}})
        sc.add_aircraft("p", desc, state={"velocity": [100.0, 0.0, 5.0]})
    finally:
        use_airfoil(None)
    sc._impingement_threshold = -np.inf
    ap = sc._airplanes["p"]
    ap.q = wrap(np.array(st["q"], dtype=object))
    ap.p_bar = wrap(np.array(st["p"], dtype=object))
    ap.v = wrap(np.array(st["v"], dtype=object))
    ap.w = wrap(np.array(st["w"], dtype=object))
    ap.S_w, ap.l_ref_lon, ap.l_ref_lat = sym("Sw"), sym("lon"), sym("lat")
    return sc


def mirror_twin(ck, member, N, solver, label):
    def run():
        c = ctx()
        c.where_assume_true = True
        q = [sym("q%d" % i) for i in range(4)]
        c.declare_unit(q)
        qB = [q[0], -q[1], q[2], -q[3]]
        c.declare_unit(qB)
        stA = {"q": q, "p": [sym("px"), sym("py"), sym("pz")], "v": [sym("vx"), sym("vy"), sym("vz")], "w": [sym("wp"), sym("wq"), sym("wr")],
               "W": [sym("W0"), sym("W1"), sym("W2")]}
        refl = lambda x: [x[0], -x[1], x[2]]
        stB = {"q": qB, "p": refl(stA["p"]), "v": refl(stA["v"]), "w": [-stA["w"][0], stA["w"][1], -stA["w"][2]], "W": refl(stA["W"])}
        dA = globals()["member"](member, N)
        dB = mirror_dict(dA)
        info = {}

        def mkA():
            sc = build(dA, stA, solver, N)
            info["apA"] = sc._airplanes["p"]
            return sc

        def mkB():
            sc = build(dB, stB, solver, N)
            perm, report, bad = relate_geometry(info["apA"], sc._airplanes["p"])
            info.update(perm=perm, report=report, bad=bad)
            if perm is None or [k for k in bad if k in PIPE_ATTRS]:
                raise GeometryMismatch()          # decided by replay on the real code; the symbolic twin would only time out query by query
            sc._store_aircraft_properties()        # the scene copied chord / area / sweep when the aircraft was added
            if perm is not None:
                T.index = lambda i: perm[i]
            return sc
        gamA = None

        def pipeline(sc):
            nonlocal gamA
            sc._perform_geometry_and_atmos_calcs()
            sc._calc_invariant_flow_properties()
            if gamA is None:
                gamA = [sym("gam%d" % i) for i in range(sc._N)]
                gam = gamA
            else:
                gam = [gamA[info["perm"][i]] for i in range(sc._N)] if info.get("perm") else gamA
            R = sc._lifting_line_residual(wrap(np.array(gam, dtype=object)))
            sc._FM = {}
            sc._integrate_forces_and_moments(body_frame=True, stab_frame=True, wind_frame=True, report_by_segment=True)
            return {"R": list(R), "FM": K.flatten_fm(sc._FM)}

        def vec(x, k, attr):
            s = -1.0 if attr.startswith("_dM") else 1.0
            return [s * x[0], -s * x[1], s * x[2]]
        T = TW.Transform(vec=vec, name="mirror")
        tw = TW.Twin(T, align_timeout_ms=4000, align=True)
        tw.search_align = True
        tw.search_by_site = False      # node 0 of a left segment is node 1 of its right image: partner atoms come from sibling source lines
        cuts = {k: v for k, v in TW.CUTS.items() if not k.startswith("_u_trailing")}
        try:
            outA, outB, scA, scB = tw.run(mkA, mkB, pipeline, cuts=cuts)
        except GeometryMismatch:
            return {"geom_mismatch": [k for k in (info.get("bad") or []) if k in PIPE_ATTRS] or ["control points"], "info": info}
        return {"A": outA, "B": outB, "tw": tw, "N": scA._N, "info": info}

    res = explore(run, max_paths=6)
    ck.add_paths(res)
    for p in res:
        lab = "%s path%s" % (label, "".join("1" if d else "0" for d in p.decisions))
        if not p.ok:
            ck.inconc("%s: %s %r %s" % (lab, p.kind, p.exc, (p.tb or "")[-600:]))
            continue
        v = p.value
        info = v["info"]
        Ctx.cur = p.ctx
        if "geom_mismatch" in v:
            mk0 = lambda ob, member=member, N=N, solver=solver: Finding("mirror", {"member": member, "N": N, "solver": solver, "what": ob.label}, ob.label, ob.model)
            ck.add([Obligation("%s stored body-frame geometry of the mirrored aircraft is the reflection of the original (differs beyond %g in %s)" % (lab, GEOM_TOL, v["geom_mismatch"][:6]),
                               [], z3.BoolVal(False), meta={"finding": mk0})])
            continue
        tw = v["tw"]

        def mk(ob, member=member, N=N, solver=solver):
            return Finding("mirror", {"member": member, "N": N, "solver": solver, "what": ob.label}, ob.label, ob.model)
        if info.get("perm") is None:
            ck.add([Obligation(lab + " reflected control points found", [], z3.BoolVal(False), meta={"finding": mk})])
            continue
        if info["bad"]:
            ck.note("%s: stored geometry not related by the reflection within %g (kept as computed, not a verdict): %s" % (lab, GEOM_TOL, info["bad"]))
        for ob in tw.obligs:
            ob.label = lab + " " + ob.label
            ob.meta["finding"] = mk
        ck.add(tw.obligs)
        ck.aligned += tw.stats["aligned"]
        A, B = v["A"], v["B"]
        obs = []
        perm = info["perm"]
        for i, rb in enumerate(B["R"]):
            obs.append(tw.result_obligation("%s residual[%d] == residual_A[%d]" % (lab, i, perm[i]), rb, A["R"][perm[i]]))
        keymap = {mirror_key(k): k for k in A["FM"]}
        if set(keymap) != set(B["FM"]):
            obs.append(Obligation(lab + " result key set (segments swap sides)", [], z3.BoolVal(False)))
        for kb in sorted(set(keymap) & set(B["FM"])):
            ka = keymap[kb]
            s = sign_of(ka)
            obs.append(tw.result_obligation("%s %s == %s%s of the original" % (lab, kb, "-" if s < 0 else "", ka), B["FM"][kb], s * SR(A["FM"][ka])))
        for ob in obs:
            ob.meta["finding"] = mk
        ck.add(obs)
        k0 = "p/total/Fy"
        cg = zexpr(SR(B["FM"][k0])) == zexpr(SR(A["FM"][keymap[k0]]))        # Fy must be negated, not equal
        ck.add([Obligation(lab + " canary (Fy equal instead of negated)", tw._facts_for(p.ctx, cg), cg, canary=True),
                Obligation(lab + " reach", list(p.ctx.assumptions) + list(p.ctx.pc), z3.BoolVal(True), witness=True)])
        if tw.unmatched:
            ck.note("%s: %d atom pairs not aligned (not a verdict), e.g. %s" % (lab, tw.stats["unmatched"], tw.unmatched[:12] if __import__('os').environ.get('C04_DEBUG') else [u[:2] for u in tw.unmatched[:2]]))
        if len(ck.samples) < 6:
            ck.sample({"case": label, "N": v["N"], "row_permutation": perm, "geometry_relations": ["%s: %s (max dev %.1e)" % r for r in info["report"]][:12],
                       "cut_obligations": len(tw.obligs), "atoms_aligned": tw.stats["aligned"], "atoms_unmatched": tw.stats["unmatched"], "result_keys": len(A["FM"])})
    Ctx.cur = None


def mirror_geometry(ck, member, N, label):
    """concrete part: the body-frame geometry the real constructors store for the mirrored description is the reflection of the original's
    (1e-12); a mismatch in anything the pipeline reads is handed to the replay (real solves of both aircraft in mirrored states)"""
    from checks.families import LinearAirfoil

    def run():
        z = [exact(0)] * 3
        st = {"q": [exact(1), exact(0), exact(0), exact(0)], "p": z, "v": [exact(100), exact(0), exact(5)], "w": z, "W": z}
        d = globals()["member"](member, N)
        full = dict(use_swept_sections=True, use_total_velocity=True, use_in_plane=True)
        apA = build(d, st, full, N, airfoil=LinearAirfoil)._airplanes["p"]
        apB = build(mirror_dict(d), st, full, N, airfoil=LinearAirfoil)._airplanes["p"]
        perm, report, bad = relate_geometry(apA, apB)
        return {"perm": perm, "report": report, "bad": bad}
    res = explore(run, max_paths=2)
    ck.add_paths(res)
    for p in res:
        if not p.ok:
            ck.inconc("%s: %s %r %s" % (label, p.kind, p.exc, (p.tb or "")[-600:]))
            continue
        v = p.value
        ess = ["control points"] if v["perm"] is None else [k for k in v["bad"] if k in PIPE_ATTRS]
        mk = lambda ob, member=member, N=N: Finding("mirror", {"member": member, "N": N, "solver": {}, "what": ob.label}, ob.label, ob.model)
        ck.add([Obligation("%s: stored body-frame geometry of the mirrored description is the reflection of the original's (mismatch in %s)" % (label, ess[:6]), [], z3.BoolVal(not ess), meta={"finding": mk})])
        ck.sample({"case": label, "row_permutation": v["perm"], "relations": len(v["report"]), "unrelated": v["bad"]})


# ---- replay ------------------------------------------------------------------------------------------------------
def replay_mirror(inp):
    """solve the real nonlinear problem for the aircraft and for its mirror image in the mirrored state; compare all reported loads"""
    from checks.analysis import real_classes
    import machupX as MX
    rng = np.random.RandomState(5)
    bad = []
    with real_classes():
        for trial in range(3):
            q = rng.normal(size=4) * np.array([1.0, 0.15, 0.15, 0.15]); q[0] = abs(q[0]) + 1.0; q /= np.linalg.norm(q)
            pos = rng.uniform(-50, 50, size=3)
            vb = np.array([100.0, 6.0 * (trial + 1), 8.0]); wb = np.array([0.05, -0.03, 0.04]); W = np.array([5.0, -4.0, 2.0])
            res = []
            for mir in (False, True):
                d = member(inp["member"], inp["N"])
                s = np.array(MVEC) if mir else np.ones(3)
                if mir:
                    d = mirror_dict(d)
                qq = q * np.array([1.0, -1.0, 1.0, -1.0]) if mir else q
                ww = wb * np.array([-1.0, 1.0, -1.0]) if mir else wb
                sc = MX.Scene({"units": "English", "solver": dict(inp["solver"]), "scene": {"atmosphere": {"rho": 0.0023769, "V_wind": list(W * s)}}})
                sc.add_aircraft("p", d, state={"position": list(pos * s), "orientation": list(qq), "velocity": list(vb * s), "angular_rates": list(ww)})
                fm = sc.solve_forces(body_frame=True, stab_frame=True, wind_frame=True, report_by_segment=True)
                res.append({k: float(x) for k, x in K.flatten_fm(fm).items()})
            for ka, a in res[0].items():
                b = res[1].get(mirror_key(ka))
                a2 = sign_of(ka) * a
                if b is None or abs(a2 - b) > 1e-7 * max(abs(a), abs(b), 1e-2):
                    bad.append((ka, a2, b))
            if bad:
                break
    ks = sorted(set(b[0].split("/")[-1] if len(b[0].split("/")) < 4 else b[0].split("/")[2] for b in bad))
    return {"reproduced": bool(bad), "key": "mirror image loads differ: " + ",".join(ks[:6]), "observed": bad[:6],
            "what": "loads of the mirrored aircraft in the mirrored state are not the reflected loads: %s" % (bad[:3],)}


REPLAYS = {"mirror": replay_mirror}


def main(tier, seed, only=None):
    ck = Check("C04", tier, seed, REPLAYS)
    ck.portfolio = (("/usr/bin/z3", 1.0), ("z3api", 1.0), ("cvc5", 1.0))
    facade.install()
    import machupX.scene as SC
    ck.encoded(SC.Scene._perform_geometry_and_atmos_calcs, SC.Scene._calc_invariant_flow_properties, SC.Scene._lifting_line_residual, SC.Scene._calc_v_i, SC.Scene._get_section_lift,
               SC.Scene._correct_CL_for_sweep, SC.Scene._integrate_forces_and_moments)
    ck.stub("airfoil evaluations uninterpreted (per control point)", "circulation: arbitrary symbolic vector, row-permuted for the mirror image (the residual equations and the loads are related for every circulation, hence for the root)")
    ck.assume("uniform atmosphere, uniform wind (reflected with the scene)", "reals, not floats", "unit quaternion",
              "body-frame geometry stored by Airplane (concrete per family member) enters as computed by the real constructors; entries that agree with the reflection of the original within 1e-12 are replaced by the exact reflection")
    ck.out_of_claim("uniqueness of the root of the lifting-line equations", "configurations where a trailing vortex impinges on a control point (denominators assumed > 1e-13)",
                    "control deflections (the families used here carry no control surfaces; antisymmetric control sign is decided in C15)",
                    "geometry generation for arbitrary descriptions: decided per segment in C12 (left/right halves of the documented curve)")
    full = dict(use_swept_sections=True, use_total_velocity=True, use_in_plane=True)
    plan = [("m1", 2, full, "mirror m1 right-only wing N=2"), ("g6", 2, full, "mirror g6 left wing mounted with y_offset + tail placed from its root N=4")]
    if tier == "thorough":
        # g1 (self-mirror, N=4) and g2 (90 deg fin with Reid corrections, N=7) are written but were never run end-to-end in the session; not registered
        plan += [("g3", 2, full, "mirror g3 left wing + right stab with y_offset N=4")]
    tasks = []
    geom = [("k1", 4, "mirror geometry k1 right-only swept wing with Kuchemann offset N=4"), ("g2", 2, "mirror geometry g2 wing + 90deg fin, Reid N=7"), ("g4", 2, "mirror geometry g4 chained segments + winglets N=12"),
            ("g5", 2, "mirror geometry g5 wing + tail with control surfaces N=8")]
    for member, N, label in geom:
        if only and not any(o in label for o in only):
            continue
        tasks.append((label, lambda c, member=member, N=N, label=label: mirror_geometry(c, member, N, label)))
    for member, N, solver, label in plan:
        if only and not any(o in label for o in only):
            continue
        tasks.append((label, lambda c, member=member, N=N, solver=solver, label=label: mirror_twin(c, member, N, solver, label)))
    run_parallel(ck, tasks)
    ck.bound(pipeline="members m1, g6 (quick) + g3 (thorough), concrete body geometry, N <= 7; arbitrary unit quaternion, position, velocity, rates, wind, circulation, reference quantities")
    ck.rung("pipeline mirror twin (assembly + kernel + integration); concrete mirror relation of generated geometry")
    return ck.finish()
