"""C15 -- control inputs map to section flap deflections exactly as documented.

The real WingSegment._setup_control_surface / apply_control, Airplane.set_control_state and Scene.set_aircraft_control_state run
with symbolic control inputs (scalar degrees, unit-annotated radians, spanwise distribution), mixing factors, saturation angle,
root / tip span (the mask comparisons fork) and flap-chord fractions; z3 compares every section with
   delta_i = clip( rad( sum_c mix_c * in_c * (+1 | -1 on the left side of an antisymmetric control) ), +-sat ) * [root <= s_i <= tip]
and the flap-chord fraction with the interpolated input inside the mask, 0 outside; a second setting replaces the first.
"""
import copy

import numpy as np
import z3

from symx import facade, smt
from symx.explore import explore
from symx.harness import Check, Finding, run_parallel
from symx.smt import Obligation
from symx.values import SR, SB, sym, zexpr, ctx, simp, PI

from checks.families import AIRFOILS


def airplane_dict(N, sym_ctrl, two_surfaces=True, sat=True, dist_cf=False):
    """wing with a mixed surface (aileron antisymmetric + flap symmetric) and a tail with elevator; optionally symbolic control geometry"""
    def S(n, d):
        return sym(n) if sym_ctrl else d
    cs_main = {"root_span": S("root", 0.3), "tip_span": S("tip", 0.8),
               "chord_fraction": [[S("root", 0.3), S("cf0", 0.2)], [S("tip", 0.8), S("cf1", 0.3)]] if dist_cf else S("cf", 0.25),
               "control_mixing": {"aileron": S("mixa", 1.0), "flap": S("mixf", 0.5)}}
    if sat:
        cs_main["saturation_angle"] = S("sat", 20.0)
    d = {"CG": [0.0, 0.0, 0.0], "weight": 50.0, "reference": {"area": 8.0, "longitudinal_length": 1.0, "lateral_length": 8.0},
         "airfoils": copy.deepcopy(AIRFOILS),
         "controls": {"aileron": {"is_symmetric": False}, "flap": {"is_symmetric": True}, "elevator": {"is_symmetric": True}},
         "wings": {"main": {"ID": 1, "side": "both", "is_main": True, "semispan": 4.0, "chord": 1.0, "airfoil": "a1",
                            "grid": {"N": N, "reid_corrections": False, "flap_edge_cluster": False, "distribution": "linear"}, "control_surface": cs_main}}}
    if two_surfaces:
        d["wings"]["tail"] = {"ID": 2, "side": "both", "is_main": False, "connect_to": {"ID": 1, "location": "root", "dx": -4.0}, "semispan": 1.5, "chord": 0.5,
                              "airfoil": "a2", "grid": {"N": N, "reid_corrections": False, "distribution": "linear"},
                              "control_surface": {"chord_fraction": 0.3, "control_mixing": {"elevator": S("mixe", 1.0), "flap": S("mixtf", -0.2)}}}
    return d


def ref_delta(seg_info, inputs, symmetry, side, rad):
    """documented mapping for one segment; inputs: control -> value in degrees | ("dist", [(s, deg), ...])"""
    out = []
    for i, s_i in enumerate(seg_info["cp"]):
        inside = (s_i >= seg_info["root"]) & (s_i <= seg_info["tip"]) if isinstance((s_i >= seg_info["root"]), SB) or isinstance((s_i <= seg_info["tip"]), SB) \
            else bool((s_i >= seg_info["root"]) and (s_i <= seg_info["tip"]))
        total = SR(0.0)
        for cname, mix in seg_info["mixing"].items():
            val = inputs.get(cname, 0.0)
            if isinstance(val, tuple):
                pts = val[1]
                (s0, d0), (s1, d1) = pts[0], pts[-1]
                t = (s_i - s0) / (s1 - s0)
                val_i = d0 + t * (d1 - d0)
            else:
                val_i = val
            sign = 1.0 if (side == "right" or symmetry[cname]) else -1.0
            total = total + SR(val_i) * mix * sign
        d = rad(total)
        sat = seg_info["sat"]
        if sat is not None:
            d = SR(z3.If(zexpr(d) > zexpr(sat), zexpr(sat), z3.If(zexpr(d) < -zexpr(sat), -zexpr(sat), zexpr(d)))) if (isinstance(d, SR) and d.c is None) or (isinstance(sat, SR) and sat.c is None) \
                else SR(min(max(float(d), -float(sat)), float(sat)))
        if isinstance(inside, SB):
            d = SR(z3.If(inside.b, zexpr(d), z3.RealVal(0)))
        elif not inside:
            d = SR(0.0)
        out.append(d)
    return out


def run_controls(N, form, sym_ctrl, second):
    import machupX as MX
    sc = MX.Scene({"units": "English", "scene": {"atmosphere": {"rho": 0.0023769}}})
    ad = airplane_dict(N, sym_ctrl, dist_cf=(form == "dist"))
    sc.add_aircraft("p", ad, state={"velocity": [100.0, 0.0, 5.0]})
    ap = sc._airplanes["p"]
    rad = facade.NP.radians
    # control inputs
    ia, iff, ie = sym("in_a"), sym("in_f"), sym("in_e")
    if form == "deg":
        cs = {"aileron": ia, "flap": iff, "elevator": ie}
        ref_in = {"aileron": ia, "flap": iff, "elevator": ie}
    elif form == "rad":
        cs = {"aileron": [ia, "rad"], "flap": iff, "elevator": [ie, "deg"]}
        ref_in = {"aileron": ia * 57.29578, "flap": iff, "elevator": ie}          # the unit table's factor (C06 checks the table against exact values)
    elif form == "partial":
        cs = {"aileron": ia}                                                       # unspecified controls become zero
        ref_in = {"aileron": ia}
    else:   # spanwise distribution on the main surface's flap control
        main = ap.wing_segments["main_right"]
        r_, t_ = main._cntrl_root_span, main._cntrl_tip_span
        d0, d1 = sym("d0"), sym("d1")
        cs = {"aileron": facade.wrap(np.array([[r_, d0], [t_, d1]], dtype=object)), "flap": iff}
        ref_in = {"aileron": ("dist", [(r_, d0), (t_, d1)]), "flap": iff}
    if second:
        # a previous, different setting must leave no trace
        sc.set_aircraft_control_state({"aileron": sym("old_a"), "flap": sym("old_f"), "elevator": sym("old_e")})
    sc._solved = True
    sc.set_aircraft_control_state(cs)
    out = {"segments": {}, "solved": sc._solved, "state": dict(ap.current_control_state), "cs": cs}
    for name, seg in ap.wing_segments.items():
        info = {"cp": list(seg.cp_span_locs), "root": seg._cntrl_root_span, "tip": seg._cntrl_tip_span, "mixing": dict(seg._control_mixing),
                "sat": seg._saturation_angle if not (isinstance(seg._saturation_angle, (float, np.floating)) and np.isinf(seg._saturation_angle)) else None}
        tail_in = dict(ref_in)
        if name.startswith("tail") and isinstance(tail_in.get("flap"), tuple):
            tail_in["flap"] = None     # a distribution given for another surface's extent: not claimed (the code raises or interpolates)
        want = ref_delta(info, ref_in, ap._control_symmetry, seg.side, rad)
        # flap chord fraction reference
        cfw = []
        for s_i in info["cp"]:
            gd = seg._getter_data["flap_chord_fraction"]
            if isinstance(gd, np.ndarray):
                (s0, c0), (s1, c1) = (gd[0][0], gd[0][1]), (gd[-1][0], gd[-1][1])
                val = c0 + (s_i - s0) / (s1 - s0) * (c1 - c0)
            else:
                val = gd
            ins = (s_i >= info["root"]) & (s_i <= info["tip"]) if isinstance((s_i >= info["root"]), SB) or isinstance((s_i <= info["tip"]), SB) else bool((s_i >= info["root"]) and (s_i <= info["tip"]))
            if isinstance(ins, SB):
                cfw.append(SR(z3.If(ins.b, zexpr(SR(val)), z3.RealVal(0))))
            else:
                cfw.append(SR(val) if ins else SR(0.0))
        out["segments"][name] = {"got": list(seg._delta_flap), "want": want, "cf_got": list(seg._cp_c_f), "cf_want": cfw, "side": seg.side}
    return out


def harness(ck, N, form, sym_ctrl, second):
    label = "controls N=%d form=%s %s%s" % (N, form, "symbolic surface" if sym_ctrl else "concrete surface", " after a previous setting" if second else "")
    assum = []
    if sym_ctrl:
        r, t = z3.Real("root"), z3.Real("tip")
        assum = [r >= 0, t <= 1, r < t, z3.Real("sat") > 0, z3.Real("cf") > 0, z3.Real("cf") < 1]
    res = explore(lambda: run_controls(N, form, sym_ctrl, second), assumptions=assum, max_paths=200)
    ck.add_paths(res)
    for p in res:
        lab = "%s path%s" % (label, "".join("1" if d else "0" for d in p.decisions))
        if not p.ok:
            ck.inconc("%s: %s %r %s" % (lab, p.kind, p.exc, (p.tb or "")[-400:]))
            continue
        v = p.value
        facts = p.facts()

        def mk(ob, N=N, form=form, second=second):
            return Finding("controls", {"N": N, "form": form, "second": second, "model": {k: smt.frac(x) for k, x in (ob.model or {}).items() if k in
                                        ("in_a", "in_f", "in_e", "root", "tip", "sat", "mixa", "mixf", "mixe", "mixtf", "cf", "d0", "d1", "old_a", "old_f", "old_e") and _isnum(x)}}, ob.label, ob.model)
        for name, sd in v["segments"].items():
            if sd["want"] is not None:
                g = z3.And(*[zexpr(SR(a)) == zexpr(SR(b)) for a, b in zip(sd["got"], sd["want"])]) if len(sd["got"]) == len(sd["want"]) else z3.BoolVal(False)
                ck.add([Obligation("%s %s deflection" % (lab, name), facts, g, meta={"finding": mk})])
            g = z3.And(*[zexpr(SR(a)) == zexpr(SR(b)) for a, b in zip(sd["cf_got"], sd["cf_want"])])
            ck.add([Obligation("%s %s flap chord fraction" % (lab, name), facts, g, meta={"finding": mk})])
        ck.add([Obligation(lab + " solved flag cleared", [], z3.BoolVal(v["solved"] is False), meta={"finding": mk}),
                Obligation(lab + " registry holds exactly the given inputs, others zero", [], z3.BoolVal(_registry_ok(v)), meta={"finding": mk})])
        sd = v["segments"]["main_right"]
        if sd["want"] is not None:
            ck.add([Obligation(lab + " canary", facts, zexpr(SR(sd["got"][0])) == zexpr(SR(sd["want"][0])) + 1, canary=True),
                    Obligation(lab + " reach", facts, z3.BoolVal(True), witness=True)])
        if len(ck.samples) < 3:
            ck.sample({"case": label, "path": p.decisions, "main_left_delta": [str(x)[:200] for x in v["segments"]["main_left"]["got"]][:2]})


def _isnum(x):
    try:
        smt.frac(x)
        return True
    except Exception:
        return False


def _registry_ok(v):
    st, cs = v["state"], v["cs"]
    if set(st) != {"aileron", "flap", "elevator"}:
        return False
    for k in st:
        if k in cs:
            if st[k] is not cs[k] and not (isinstance(st[k], (int, float)) and st[k] == cs[k]):
                return False
        else:
            if not (isinstance(st[k], (int, float)) and st[k] == 0.0):
                return False
    return True


# ---- replay ----------------------------------------------------------------------------------------------------------
def replay_controls(inp):
    from checks.analysis import real_classes
    import machupX as MX
    m = inp.get("model", {})
    with real_classes():
        ad = airplane_dict(inp["N"], False, dist_cf=(inp["form"] == "dist"))
        main = ad["wings"]["main"]["control_surface"]
        root, tip = m.get("root", 0.3), m.get("tip", 0.8)
        if not (0 <= root < tip <= 1):
            root, tip = 0.3, 0.8
        main["root_span"], main["tip_span"] = root, tip
        main["saturation_angle"] = abs(m.get("sat", 4.0)) or 4.0
        main["control_mixing"] = {"aileron": m.get("mixa", 1.0), "flap": m.get("mixf", 0.5)}
        if inp["form"] == "dist":
            main["chord_fraction"] = [[root, 0.2], [tip, 0.3]]
        sc = MX.Scene({"units": "English", "scene": {"atmosphere": {"rho": 0.0023769}}})
        sc.add_aircraft("p", ad, state={"velocity": [100.0, 0.0, 5.0]})
        ap = sc._airplanes["p"]
        ia, iff, ie = m.get("in_a", 3.0), m.get("in_f", -2.0), m.get("in_e", 1.5)
        if inp["form"] == "deg":
            cs = {"aileron": ia, "flap": iff, "elevator": ie}; ref_in = dict(cs)
        elif inp["form"] == "rad":
            cs = {"aileron": [ia / 57.29578, "rad"], "flap": iff, "elevator": [ie, "deg"]}; ref_in = {"aileron": ia, "flap": iff, "elevator": ie}
        elif inp["form"] == "partial":
            cs = {"aileron": ia}; ref_in = dict(cs)
        else:
            cs = {"aileron": np.array([[root, m.get("d0", 2.0)], [tip, m.get("d1", -4.0)]]), "flap": iff}
            ref_in = {"aileron": ("dist", [(root, m.get("d0", 2.0)), (tip, m.get("d1", -4.0))]), "flap": iff}
        if inp.get("second"):
            sc.set_aircraft_control_state({"aileron": 7.0, "flap": -6.0, "elevator": 5.0})
        sc._solved = True
        sc.set_aircraft_control_state(cs)
        bad = []
        if sc._solved:
            bad.append("solved flag not cleared")
        for name, seg in ap.wing_segments.items():
            info = {"cp": [float(x) for x in seg.cp_span_locs], "root": seg._cntrl_root_span, "tip": seg._cntrl_tip_span, "mixing": dict(seg._control_mixing),
                    "sat": None if np.isinf(seg._saturation_angle) else float(seg._saturation_angle)}
            want = [float(x) for x in ref_delta(info, ref_in, ap._control_symmetry, seg.side, np.radians)]
            got = [float(x) for x in seg._delta_flap]
            if not np.allclose(got, want, rtol=1e-6, atol=1e-10):
                bad.append("%s: deflections %s, documented %s" % (name, got, want))
    return {"reproduced": bool(bad), "key": "controls %s: %s" % (inp["form"], ",".join(b.split(":")[0] for b in bad)), "observed": bad,
            "what": "set_aircraft_control_state(%s): %s" % (inp["form"], "; ".join(bad)[:600])}


REPLAYS = {"controls": replay_controls}


def main(tier, seed, only=None):
    ck = Check("C15", tier, seed, REPLAYS)
    facade.install()
    import machupX.wing_segment as WS, machupX.airplane as AP, machupX.scene as SC
    ck.encoded(WS.WingSegment._setup_control_surface, WS.WingSegment.apply_control, AP.Airplane.set_control_state, AP.Airplane._initialize_controls,
               SC.Scene.set_aircraft_control_state)
    import machupX.helpers as H
    ck.encoded(H.import_value, H.convert_units)
    ck.assume("reals, not floats", "0 <= root_span < tip_span <= 1, saturation angle > 0", "radians = degrees * pi/180 with pi symbolic; the 'rad' unit factor 57.29578 of the unit table is taken as is (C06)")
    ck.out_of_claim("callable deflection distributions (opaque code)", "the airfoil flap model that turns a positive deflection into a lift increase (airfoil_db, outside /repo)")
    plan = [(2, "deg", True, False), (2, "deg", True, True), (2, "rad", False, False), (2, "partial", False, True), (2, "dist", False, False)]
    if tier == "thorough":
        plan += [(3, "deg", True, False), (4, "deg", False, True), (3, "dist", True, False), (3, "rad", True, True)]
    tasks = []
    for N, form, sc_, second in plan:
        if only and form not in only:
            continue
        tasks.append(("%d %s %s %s" % (N, form, sc_, second), lambda c, N=N, form=form, sc_=sc_, second=second: harness(c, N, form, sc_, second)))
    run_parallel(ck, tasks)
    ck.bound(controls=3, surfaces="2 (wing: aileron antisymmetric + flap symmetric mixed; tail: elevator + flap)", N="<= 4 per semispan", settings="sequences of two settings")
    ck.rung("rung 1: unit-level harness")
    return ck.finish()
