"""C16 -- section coefficients are the span-wise linear blend of the specified airfoils.

The real WingSegment._initialize_airfoils, _get_control_point_coef, _airfoil_interpolator and the seven get_cp_* getters run on
both sides with airfoil evaluations replaced by uninterpreted functions and the interior stations at *symbolic* span positions
(the comparisons with the control-point fractions fork); z3 compares each coefficient at each control point with
(1-d) f_j(x_i) + d f_{j+1}(x_i) for the bracketing pair j, evaluated at that control point's own (alpha, Re, M, delta, c_f).
"""
import copy

import numpy as np
import z3

from symx import facade, smt
from symx.explore import explore
from symx.harness import Check, Finding, run_parallel
from symx.smt import Obligation
from symx.values import SR, SB, sym, zexpr, ctx, simp

from checks.families import AIRFOILS, UFAirfoil, use_airfoil

COEFS = [("get_cp_CL", "CL", True), ("get_cp_CD", "CD", True), ("get_cp_Cm", "Cm", True), ("get_cp_CLa", "CLa", True),
         ("get_cp_CLRe", "CLRe", True), ("get_cp_CLM", "CLM", True), ("get_cp_aL0", "aL0", False)]


class ItemStr(str):
    def item(self):
        return str(self)


def airfoil_table(stations, names):
    rows = []
    for s_, n in zip(stations, names):
        rows.append([s_, ItemStr(n)])
    a = np.empty((len(rows), 2), dtype=object)
    for i, r in enumerate(rows):
        a[i, 0], a[i, 1] = r
    return a


def airplane_dict(N, stations, names, side="both", default_only=False):
    afs = {"a1": dict(AIRFOILS["a1"]), "a2": dict(AIRFOILS["a2"]), "a3": dict(AIRFOILS["a2"], CLa=5.5), "a4": dict(AIRFOILS["a1"], CLa=6.5)}
    wing = {"ID": 1, "side": side, "is_main": True, "semispan": 4.0, "chord": 1.0, "grid": {"N": N, "reid_corrections": False, "distribution": "linear"},
            "control_surface": {"root_span": 0.0, "tip_span": 1.0, "chord_fraction": 0.25, "control_mixing": {"flap": 1.0}}}
    if not default_only:
        wing["airfoil"] = airfoil_table(stations, names) if stations is not None else names
    return {"CG": [0.0, 0.0, 0.0], "weight": 10.0, "reference": {"area": 8.0, "longitudinal_length": 1.0, "lateral_length": 8.0},
            "airfoils": afs, "controls": {"flap": {"is_symmetric": True}}, "wings": {"main": wing}}


def run_blend(N, nst, default_case):
    import machupX as MX
    names = ["a1", "a2", "a3", "a4"][:nst]
    if default_case == "single":
        stations, names_ = None, "a2"
    elif default_case == "default":
        stations, names_ = None, None
    else:
        inner = [sym("st%d" % i) for i in range(1, nst - 1)]
        stations, names_ = [0.0] + inner + [1.0], names
    use_airfoil(UFAirfoil)
    try:
        sc = MX.Scene({"units": "English", "scene": {"atmosphere": {"rho": 0.0023769}}})
        sc.add_aircraft("p", airplane_dict(N, stations, names_, default_only=(default_case == "default")), state={"velocity": [100.0, 0.0, 5.0]})
    finally:
        use_airfoil(None)
    ap = sc._airplanes["p"]
    out = {}
    for sname, seg in ap.wing_segments.items():
        n = seg.N
        alpha = facade.wrap(np.array([sym("al_%s_%d" % (sname, i)) for i in range(n)], dtype=object))
        Re = facade.wrap(np.array([sym("Re_%s_%d" % (sname, i)) for i in range(n)], dtype=object))
        Ma = facade.wrap(np.array([sym("Ma_%s_%d" % (sname, i)) for i in range(n)], dtype=object))
        seg._cp_c_f = facade.wrap(np.array([sym("cf_%s_%d" % (sname, i)) for i in range(n)], dtype=object))
        # history: every getter has been evaluated before at another flap deflection, then the deflection array was *rebound* to a
        # new array, as WingSegment.apply_control does on every control change; the coefficients must follow the current array
        seg._delta_flap = facade.wrap(np.array([sym("olddf_%s_%d" % (sname, i)) for i in range(n)], dtype=object))
        for meth, coef, takes_alpha in COEFS:
            getattr(seg, meth)(alpha, Re, Ma) if takes_alpha else getattr(seg, meth)(Re, Ma)
        seg._delta_flap = facade.wrap(np.array([sym("df_%s_%d" % (sname, i)) for i in range(n)], dtype=object))
        res = {}
        for meth, coef, takes_alpha in COEFS:
            got = getattr(seg, meth)(alpha, Re, Ma) if takes_alpha else getattr(seg, meth)(Re, Ma)
            want = []
            for i in range(n):
                s_i = seg.cp_span_locs[i]
                al_i = alpha[i] if takes_alpha else SR(0.0)

                def f(j):
                    return seg._airfoils[j]._uf(coef, al_i, Re[i], Ma[i], seg._delta_flap[i], seg._cp_c_f[i]) if not isinstance(
                        seg._airfoils[j]._uf(coef, al_i, Re[i], Ma[i], seg._delta_flap[i], seg._cp_c_f[i]), np.ndarray) else seg._airfoils[j]._uf(coef, al_i, Re[i], Ma[i], seg._delta_flap[i], seg._cp_c_f[i])[0]
                if seg._num_airfoils == 1:
                    want.append(f(0))
                    continue
                sp = list(seg._airfoil_spans)
                j = 0
                for k in range(1, len(sp) - 1):      # bracketing pair: largest j with station_j < s_i (forks on symbolic stations)
                    if bool(SR(sp[k]) < s_i):
                        j = k
                d = (s_i - sp[j]) / (sp[j + 1] - sp[j])
                want.append((1 - d) * f(j) + d * f(j + 1))
            res[coef] = (list(np.asarray(got, dtype=object).reshape(-1)) if isinstance(got, np.ndarray) else [got] * n, want)
        out[sname] = {"res": res, "first": seg._airfoils[0].name, "n_airfoils": seg._num_airfoils}
    return out


def harness(ck, N, nst, case):
    label = "blend N=%d stations=%s %s" % (N, nst if case == "dist" else "-", case)
    assum = []
    if case == "dist":
        st = [z3.RealVal(0)] + [z3.Real("st%d" % i) for i in range(1, nst - 1)] + [z3.RealVal(1)]
        assum = [st[i] < st[i + 1] for i in range(nst - 1)]
    res = explore(lambda: run_blend(N, nst, case), assumptions=assum, max_paths=300)
    ck.add_paths(res)
    for p in res:
        lab = "%s path%s" % (label, "".join("1" if d else "0" for d in p.decisions))
        if not p.ok:
            ck.inconc("%s: %s %r %s" % (lab, p.kind, p.exc, (p.tb or "")[-400:]))
            continue
        v = p.value
        facts = p.facts()

        def mk(ob, N=N, nst=nst, case=case):
            st = []
            for i in range(1, nst - 1):
                try:
                    st.append(smt.frac((ob.model or {}).get("st%d" % i)))
                except Exception:
                    st.append(None)
            return Finding("blend", {"N": N, "nst": nst, "case": case, "stations": st}, ob.label, ob.model)
        for sname, sd in v.items():
            for coef, (got, want) in sd["res"].items():
                g = z3.And(*[zexpr(SR(a)) == zexpr(SR(b)) for a, b in zip(got, want)]) if len(got) == len(want) else z3.BoolVal(False)
                ck.add([Obligation("%s %s %s" % (lab, sname, coef), facts, g, meta={"finding": mk})])
            if case == "default":
                ck.add([Obligation("%s %s default airfoil is the first listed" % (lab, sname), [], z3.BoolVal(sd["first"] == "a1" and sd["n_airfoils"] == 1), meta={"finding": mk})])
        s0 = sorted(v)[0]
        got, want = v[s0]["res"]["CL"]
        ck.add([Obligation(lab + " canary", facts, zexpr(SR(got[0])) == zexpr(SR(want[0])) + 1, canary=True),
                Obligation(lab + " reach", facts, z3.BoolVal(True), witness=True)])
        if len(ck.samples) < 3:
            ck.sample({"case": label, "path": p.decisions, "example": str(got[0])[:300]})


# ---- replay ----------------------------------------------------------------------------------------------------------
def replay_blend(inp):
    from checks.analysis import real_classes
    import machupX as MX
    N, nst, case = inp["N"], inp["nst"], inp["case"]
    names = ["a1", "a2", "a3", "a4"][:nst]
    cand_st = []
    st = inp.get("stations") or []
    if case == "dist":
        if all(s is not None for s in st) and all(0 < s < 1 for s in st) and sorted(st) == st and len(set(st)) == len(st):
            cand_st.append(st)
        rng = np.random.RandomState(5)
        for _ in range(4):
            cand_st.append(sorted(rng.uniform(0.05, 0.95, nst - 2).tolist()))
    else:
        cand_st.append([])
    bad = []
    with real_classes():
        for inner in cand_st:
            if case == "single":
                d = airplane_dict(N, None, "a2")
            elif case == "default":
                d = airplane_dict(N, None, None, default_only=True)
            else:
                d = airplane_dict(N, [0.0] + inner + [1.0], names)
                d["wings"]["main"]["airfoil"] = [[s_, n] for s_, n in zip([0.0] + inner + [1.0], names)]
            sc = MX.Scene({"units": "English", "scene": {"atmosphere": {"rho": 0.0023769}}})
            sc.add_aircraft("p", d, state={"velocity": [100.0, 0.0, 5.0]}, control_state={"flap": 3.0})
            ap = sc._airplanes["p"]
            for sname, seg in ap.wing_segments.items():       # history: everything evaluated once at the first control setting
                n = seg.N
                alpha = np.linspace(0.02, 0.08, n); Re = np.linspace(1e6, 2e6, n); Ma = np.linspace(0.1, 0.2, n)
                for meth, coef, takes_alpha in COEFS:
                    getattr(seg, meth)(alpha, Re, Ma) if takes_alpha else getattr(seg, meth)(Re, Ma)
            sc.set_aircraft_control_state(control_state={"flap": -5.0})
            for sname, seg in ap.wing_segments.items():
                n = seg.N
                alpha = np.linspace(0.02, 0.08, n); Re = np.linspace(1e6, 2e6, n); Ma = np.linspace(0.1, 0.2, n)
                for meth, coef, takes_alpha in COEFS:
                    got = getattr(seg, meth)(alpha, Re, Ma) if takes_alpha else getattr(seg, meth)(Re, Ma)
                    got = np.asarray(got, dtype=float) * np.ones(n)
                    for i in range(n):
                        kw = dict(alpha=np.array([alpha[i] if takes_alpha else 0.0]), Rey=np.array([Re[i]]), Mach=np.array([Ma[i]]),
                                  trailing_flap_deflection=np.array([seg._delta_flap[i]]), trailing_flap_fraction=np.array([seg._cp_c_f[i]]))
                        fn = "get_" + coef

                        def f(j):
                            return float(np.asarray(getattr(seg._airfoils[j], fn)(**kw)).reshape(-1)[0])
                        if seg._num_airfoils == 1:
                            want = f(0)
                        else:
                            sp = [float(x) for x in seg._airfoil_spans]
                            s_i = float(seg.cp_span_locs[i])
                            j = max([k for k in range(len(sp) - 1) if sp[k] < s_i] or [0])
                            dd = (s_i - sp[j]) / (sp[j + 1] - sp[j])
                            want = (1 - dd) * f(j) + dd * f(j + 1)
                        if abs(got[i] - want) > 1e-9 * max(1.0, abs(want)):
                            bad.append("%s %s cp %d (span %.3f, stations %s): %.8g, blend of bracketing airfoils %.8g" % (sname, coef, i, float(seg.cp_span_locs[i]), inner, got[i], want))
                if case == "default" and seg._airfoils[0].name != "a1":
                    bad.append("%s default airfoil is %s, first listed is a1" % (sname, seg._airfoils[0].name))
            if bad:
                break
    return {"reproduced": bool(bad), "key": "blend %s: %s" % (case, sorted(set(b.split(" ")[1] for b in bad))[:4]), "observed": bad[:6],
            "what": "; ".join(bad[:3])}


REPLAYS = {"blend": replay_blend}


def main(tier, seed, only=None):
    ck = Check("C16", tier, seed, REPLAYS)
    facade.install()
    import machupX.wing_segment as WS, machupX.airplane as AP
    ck.encoded(WS.WingSegment._initialize_airfoils, WS.WingSegment._get_control_point_coef, WS.WingSegment._airfoil_interpolator, WS.WingSegment.get_cp_CL,
               WS.WingSegment.get_cp_CD, WS.WingSegment.get_cp_Cm, WS.WingSegment.get_cp_CLa, WS.WingSegment.get_cp_CLRe, WS.WingSegment.get_cp_CLM, WS.WingSegment.get_cp_aL0,
               AP.Airplane._create_airfoil_database)
    ck.stub("airfoil evaluations: uninterpreted functions of (airfoil, coefficient, alpha, Re, M, flap deflection, flap fraction) per evaluation point")
    ck.assume("stations strictly increasing from 0 to 1 (the interior ones symbolic)", "reals, not floats")
    ck.out_of_claim("airfoil distributions read from CSV files (genfromtxt); a control point exactly at a station (measure zero: both brackets give the same blend)")
    plan = [(2, 3, "dist"), (2, 2, "dist"), (2, 0, "single"), (2, 0, "default")]
    if tier == "thorough":
        plan += [(3, 4, "dist"), (4, 3, "dist")]
    else:
        plan += [(2, 4, "dist")]
    tasks = []
    for N, nst, case in plan:
        if only and case not in only:
            continue
        tasks.append(("%d %d %s" % (N, nst, case), lambda c, N=N, nst=nst, case=case: harness(c, N, nst, case)))
    run_parallel(ck, tasks)
    ck.bound(stations="2..4 (interior ones at symbolic positions)", N="<= 4 per semispan, both sides", coefficients=len(COEFS), max_paths=300)
    ck.rung("rung 1: unit-level harness")
    return ck.finish()
