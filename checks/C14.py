"""C14 -- the converged solution is independent of the solver path (reduced claim, see DESIGN.md).

Hpath  the real solve_forces dispatch for type in {linear, nonlinear, scipy_fsolve} x initial_guess in {linear, previous} x symbolic
       relaxation, issued after an earlier solve at a *different* symbolic state that was changed the way the analyses change it
       (attributes set directly, `_solved` either way): every residual evaluation, every linear system and the final integration use
       flow properties computed for the *current* state, and every path evaluates the same residual function (ResidStub).
Hlin   the real _solve_linear assembles exactly the documented linearised system
           A_ij = 2 |v_inf,i x dl_i| delta_ij - V_i CLa_i dS_i (V_ji . u_n,i),     b_i = V_i^2 CL_i dS_i
       (V = in-plane freestream speed when use_in_plane) for arbitrary symbolic flow arrays.
Heq    with the real `_calc_invariant_flow_properties`, `_solve_linear`, `_lifting_line_residual` and integration (sections uninterpreted in
       alpha, Re, Mach, flap), the residual function each path iterates on after a history (none / earlier solve at another state, `_solved`
       kept or cleared) is, for every circulation, the residual of a fresh scene at the current state, and so are the integrated loads.
Out    that the roots reached by different paths coincide (uniqueness) and the quadratic approach of the linear solution: not decided.
"""
import numpy as np
import z3

from symx import facade, smt
from symx.explore import explore
from symx.harness import Check, Finding, run_parallel
from symx.smt import Obligation
from symx.values import SR, sym, zexpr, ctx, simp, exact
from symx.rel import cone_defs
from symx.facade import wrap

from checks import solver as SV
from checks.families import family_G


def run_path(stype, guess, presolved_flag):
    rec = SV.Rec()
    sc = SV.make_scene({"type": stype, "relaxation": sym("relax"), "convergence": sym("conv"), "max_iterations": 2})
    SV.install(sc, rec)
    try:
        try:
            sc.solve_forces()                   # an earlier solve at the construction state (it may hit the iteration cap on some paths: still a history)
        except Exception as e:
            if type(e).__name__ != "SolverNotConvergedError":
                raise
        n_first = (len(rec.flow), len(rec.resid), len(rec.linear), len(rec.integrate))
        # the analyses perturb the aircraft directly (no Scene setter): new velocity, rates, flap deflections
        ap = sc._airplanes["p"]
        ap.v = wrap(np.array([sym("nv0"), sym("nv1"), sym("nv2")], dtype=object))
        ap.w = wrap(np.array([sym("nw0"), sym("nw1"), sym("nw2")], dtype=object))
        for seg in ap.segments:
            seg._delta_flap = SV.symarr("ndf_%s" % seg.name, (seg.N,))
        sc._solved = presolved_flag
        exc = None
        try:
            sc.solve_forces(initial_guess=guess)
        except Exception as e:
            exc = e
        cur = SV.phys_state(sc)
    finally:
        SV.uninstall(rec)
    return {"rec": rec, "n_first": n_first, "cur": cur, "exc": exc}


def harness_path(ck, stype, guess, presolved_flag):
    label = "dispatch type=%s initial_guess=%s _solved=%s" % (stype, guess, presolved_flag)
    res = explore(lambda: run_path(stype, guess, presolved_flag), assumptions=[z3.Real("relax") > 0, z3.Real("relax") <= 1, z3.Real("conv") > 0], max_paths=40)
    ck.add_paths(res)
    for p in res:
        lab = "%s path%s" % (label, "".join("1" if d else "0" for d in p.decisions))
        if not p.ok:
            ck.inconc("%s: %s %r %s" % (lab, p.kind, p.exc, (p.tb or "")[-400:]))
            continue
        v = p.value
        rec, cur = v["rec"], v["cur"]
        nf, nr, nl, ni = v["n_first"]
        mk = lambda ob, stype=stype, guess=guess, presolved_flag=presolved_flag: Finding("path", {"type": stype, "guess": guess, "presolved": presolved_flag}, ob.label, ob.model)
        flow_state = {k: st for k, st in rec.flow}

        def fresh_for_current(tag):
            if tag is None or tag not in flow_state:
                return z3.BoolVal(False)
            return z3.And(*[a == b for a, b in zip(flow_state[tag], cur)]) if len(flow_state[tag]) == len(cur) else z3.BoolVal(False)
        obs = []
        for r in rec.resid[nr:]:
            obs.append(Obligation("%s residual evaluation %d uses flow properties of the current state" % (lab, r["k"]), list(p.ctx.assumptions) + list(p.ctx.pc), fresh_for_current(r["tag"]), meta={"finding": mk}))
        for i, l in enumerate(rec.linear[nl:]):
            obs.append(Obligation("%s linear system %d built from flow properties of the current state" % (lab, i), list(p.ctx.assumptions) + list(p.ctx.pc), fresh_for_current(l["tag"]), meta={"finding": mk}))
        if v["exc"] is None:
            integ = rec.integrate[ni:]
            obs.append(Obligation(lab + " exactly one integration, after the last solver step, with current flow properties", [], z3.BoolVal(len(integ) == 1 and rec.order[-1] == "integrate"), meta={"finding": mk}))
            if integ:
                obs.append(Obligation(lab + " integration uses flow properties of the current state", list(p.ctx.assumptions) + list(p.ctx.pc), fresh_for_current(integ[0]["tag"]), meta={"finding": mk}))
            # which solver steps ran: documented dispatch
            second = rec.order[sum(1 for o in rec.order[:0]):]
            ran_lin = len(rec.linear) > nl
            ran_res = len(rec.resid) > nr
            want_lin = stype == "linear" or (stype == "nonlinear" and guess == "linear")
            want_res = stype in ("nonlinear", "scipy_fsolve")
            obs.append(Obligation(lab + " documented dispatch (linear start iff linear solver or linear initial guess; residual iterations iff nonlinear/scipy)", [],
                                  z3.BoolVal(ran_lin == want_lin and ran_res == want_res), meta={"finding": mk}))
        else:
            en = type(v["exc"]).__name__
            obs.append(Obligation(lab + " only SolverNotConvergedError may be raised (iteration cap)", [], z3.BoolVal(en == "SolverNotConvergedError"), meta={"finding": mk}))
        obs.append(Obligation(lab + " reach", list(p.ctx.assumptions) + list(p.ctx.pc), z3.BoolVal(True), witness=True))
        ck.add(obs)
        if len(ck.samples) < 4:
            ck.sample({"case": label, "path": p.decisions, "call_order_second_solve": rec.order[-8:], "raised": type(v["exc"]).__name__ if v["exc"] else None})


def run_lin(in_plane):
    rec = SV.Rec()
    sc = SV.make_scene({"type": "linear", "use_in_plane": in_plane})
    SV.install(sc, rec)
    captured = {}
    real_solve = facade.NP.linalg.solve

    def cap(A, b):
        captured["A"], captured["b"] = A, b
        return real_solve(A, b)
    facade._Linalg.solve = lambda self, A, b: cap(A, b)
    try:
        N = sc._N
        sc._dl = SV.symarr("dl", (N, 3))
        sc._u_n = SV.symarr("un", (N, 3))
        sc._dS = SV.symarr("dS", (N,))
        sc._solve_linear()
    finally:
        facade._Linalg.solve = _ORIG_SOLVE
        SV.uninstall(rec)
    NP = facade.NP
    want_A = [[None] * N for _ in range(N)]
    want_b = []
    V = sc._V_inf_in_plane if in_plane else sc._V_inf
    for i in range(N):
        cr = NP.cross(sc._v_inf_and_rot[i], sc._dl[i])
        diag = 2.0 * NP.sqrt(cr[0] * cr[0] + cr[1] * cr[1] + cr[2] * cr[2])
        for j in range(N):
            dot = sc._V_ji[i, j, 0] * sc._u_n[i, 0] + sc._V_ji[i, j, 1] * sc._u_n[i, 1] + sc._V_ji[i, j, 2] * sc._u_n[i, 2]
            a = -(V[i] * sc._CLa[i] * sc._dS[i]) * dot
            if i == j:
                a = a + diag
            want_A[i][j] = a
        want_b.append(V[i] * V[i] * sc._CL[i] * sc._dS[i])
    return {"A": captured.get("A"), "b": captured.get("b"), "want_A": want_A, "want_b": want_b, "N": N, "gamma": sc._gamma}


_ORIG_SOLVE = facade._Linalg.solve


def harness_lin(ck, in_plane):
    label = "linear system use_in_plane=%s" % in_plane
    res = explore(lambda: run_lin(in_plane), max_paths=3)
    ck.add_paths(res)
    for p in res:
        if not p.ok:
            ck.inconc("%s: %s %r %s" % (label, p.kind, p.exc, (p.tb or "")[-400:]))
            continue
        v = p.value
        mk = lambda ob, in_plane=in_plane: Finding("linear", {"in_plane": in_plane}, ob.label, ob.model)
        if v["A"] is None:
            ck.add([Obligation(label + " np.linalg.solve called", [], z3.BoolVal(False), meta={"finding": mk})])
            continue
        facts = list(p.ctx.assumptions) + list(p.ctx.pc)
        obs = []
        for i in range(v["N"]):
            g = z3.And(*[zexpr(SR(v["A"][i, j])) == zexpr(SR(v["want_A"][i][j])) for j in range(v["N"])] + [zexpr(SR(v["b"][i])) == zexpr(SR(v["want_b"][i]))])
            obs.append(Obligation("%s row %d" % (label, i), facts + cone_defs(p.ctx, [g]), g, meta={"finding": mk}))
        obs.append(Obligation(label + " canary", facts, zexpr(SR(v["b"][0])) == zexpr(SR(v["want_b"][0])) + 1, canary=True))
        ck.add(obs)
        ck.sample({"case": label, "A00": str(v["A"][0, 0])[:300]})


# ---- Heq: every path iterates on the residual function of the current state (real flow-property and residual code) ----------------
def run_eq(stype, guess, history):
    """reference: fresh scene at state s2, default path.  subject: a scene with the given history brought to s2, solved on the
    given path.  The Newton loop / fsolve are replaced by 'evaluate the residual at one arbitrary circulation and return it'; the flow
    properties, the linear start, the residual and the integration are the real code with uninterpreted (Re/Mach/flap dependent) sections."""
    import machupX as MX
    import machupX.scene as SC
    from checks.families import UFAirfoil, use_airfoil
    from checks import kernel as K
    c = ctx()
    c.where_assume_true = True
    gam = wrap(np.array([sym("gam0"), sym("gam1")], dtype=object))
    s2 = {"v": [sym("v0"), sym("v1"), sym("v2")], "w": [sym("w0"), sym("w1"), sym("w2")], "df": [sym("df0"), sym("df1")]}
    s1 = {"v": [sym("ov0"), sym("ov1"), sym("ov2")], "w": [sym("ow0"), sym("ow1"), sym("ow2")], "df": [sym("odf0"), sym("odf1")]}
    rec = {}

    def mk(solver, st):
        use_airfoil(UFAirfoil)
        try:
            sc = MX.Scene({"units": "English", "solver": dict(solver), "scene": {"atmosphere": {"rho": 0.0023769}}})
            sc.add_aircraft("p", family_G("m1", N=2), state={"velocity": [100.0, 0.0, 5.0]})
        finally:
            use_airfoil(None)
        sc._impingement_threshold = -np.inf
        put(sc, st)

        def nonlinear(**kw):
            sc._gamma_lin = wrap(np.array(sc._gamma, dtype=object)) if getattr(sc, "_gamma", None) is not None else None
            sc._R_seen = sc._lifting_line_residual(gam)
            sc._gamma = gam
            return 0.0
        sc._solve_nonlinear = nonlinear
        return sc

    def put(sc, st):
        ap = sc._airplanes["p"]
        ap.v = wrap(np.array(st["v"], dtype=object))
        ap.w = wrap(np.array(st["w"], dtype=object))
        for seg in ap.segments:
            seg._delta_flap = wrap(np.array(st["df"][:seg.N], dtype=object))

    class _Sopt:
        def __getattr__(self, n):
            import scipy.optimize as so
            return getattr(so, n)

        @staticmethod
        def fsolve(fun, x0, full_output=True, **kw):
            R = fun(gam)
            rec["fs_R"] = R
            return gam, {"nfev": 1, "fvec": np.zeros(2)}, 1, "stub"
    saved = SC.sopt
    SC.sopt = _Sopt()
    try:
        ref = mk({"type": "linear" if stype == "linear" else "nonlinear"}, s2)       # the linear solver is compared with itself on a fresh scene
        fm_ref = K.flatten_fm(ref.solve_forces(body_frame=True, stab_frame=False, wind_frame=True))
        R_ref = list(ref._R_seen) if stype != "linear" else list(ref._gamma)
        sub = mk({"type": stype}, s1 if history != "none" else s2)
        if history != "none":
            sub.solve_forces()
            put(sub, s2)
            sub._solved = (history == "solved-flag-kept")
        fm = K.flatten_fm(sub.solve_forces(initial_guess=guess, body_frame=True, stab_frame=False, wind_frame=True))
        R = list(rec["fs_R"]) if stype == "scipy_fsolve" else (list(sub._R_seen) if stype == "nonlinear" else None)
        if R is None:                  # linear solver: its circulation against the fresh scene's
            R = list(sub._gamma)
    finally:
        SC.sopt = saved
    return {"R": R, "R_ref": R_ref, "fm": fm, "fm_ref": fm_ref}


def harness_eq(ck, stype, guess, history):
    label = "equations type=%s initial_guess=%s history=%s" % (stype, guess, history)
    res = explore(lambda: run_eq(stype, guess, history), max_paths=4)
    ck.add_paths(res)
    for p in res:
        lab = "%s path%s" % (label, "".join("1" if d else "0" for d in p.decisions))
        if not p.ok:
            ck.inconc("%s: %s %r %s" % (lab, p.kind, p.exc, (p.tb or "")[-400:]))
            continue
        v = p.value
        mk = lambda ob, stype=stype, guess=guess, history=history: Finding("eq", {"type": stype, "guess": guess, "history": history}, ob.label, ob.model)
        base = list(p.ctx.assumptions) + list(p.ctx.pc)
        obs = []
        for i, (a, b) in enumerate(zip(v["R"], v["R_ref"])):
            g = zexpr(SR(a)) == zexpr(SR(b))
            obs.append(Obligation("%s residual[%d] is the residual of a fresh scene at the current state" % (lab, i), base + cone_defs(p.ctx, [g]), g, meta={"finding": mk}))
        obs.append(Obligation(lab + " result key set", [], z3.BoolVal(set(v["fm"]) == set(v["fm_ref"])), meta={"finding": mk}))
        for k in sorted(set(v["fm"]) & set(v["fm_ref"])):
            g = zexpr(SR(v["fm"][k])) == zexpr(SR(v["fm_ref"][k]))
            obs.append(Obligation("%s %s (same circulation) equals the fresh scene's" % (lab, k), base + cone_defs(p.ctx, [g]), g, meta={"finding": mk}))
        g = zexpr(SR(v["R"][0])) == zexpr(SR(v["R_ref"][0])) + 1
        obs.append(Obligation(lab + " canary", base, g, canary=True))
        obs.append(Obligation(lab + " reach", base, z3.BoolVal(True), witness=True))
        ck.add(obs)
        if len(ck.samples) < 6:
            ck.sample({"case": label, "residual0": str(v["R"][0])[:200]})


# ---- replay -------------------------------------------------------------------------------------------------------
def replay_path(inp):
    """history: solve; perturb the aircraft directly; solve again on the given path; compare with a fresh scene (real solver)"""
    from checks.analysis import real_classes
    import machupX as MX
    bad = []
    with real_classes():
        def mk(v, w):
            sc = MX.Scene({"units": "English", "solver": {"type": inp["type"]}, "scene": {"atmosphere": {"rho": 0.0023769}}})
            sc.add_aircraft("p", family_G("g2", N=4), state={"velocity": v, "angular_rates": w, "orientation": [4.0, 6.0, 10.0]})
            return sc
        sc = mk([100.0, 2.0, 4.0], [0.0, 0.0, 0.0])
        sc.solve_forces()
        ap = sc._airplanes["p"]
        fresh = mk([95.0, -6.0, 12.0], [0.1, 0.05, -0.08])
        ap.v = np.array(fresh._airplanes["p"].v); ap.w = np.array(fresh._airplanes["p"].w)
        sc._solved = bool(inp["presolved"])
        try:
            a = sc.solve_forces(initial_guess=inp["guess"])["p"]["total"]
            b = fresh.solve_forces()["p"]["total"]
            for k in b:
                if abs(a[k] - b[k]) > 1e-6 * max(abs(a[k]), abs(b[k]), 1e-3):
                    bad.append((k, a[k], b[k]))
        except Exception as e:
            bad.append(("exception", repr(e)))
    return {"reproduced": bool(bad), "key": "solver path %s/%s uses stale flow properties" % (inp["type"], inp["guess"]), "observed": bad[:5],
            "what": "solve_forces(type=%s, initial_guess=%s) after a direct state change (_solved=%s) differs from a fresh scene: %s" % (inp["type"], inp["guess"], inp["presolved"], bad[:3])}


def replay_linear(inp):
    from checks.analysis import real_classes
    import machupX as MX
    bad = []
    with real_classes():
        sc = MX.Scene({"units": "English", "solver": {"type": "linear", "use_in_plane": inp["in_plane"]}, "scene": {"atmosphere": {"rho": 0.0023769}}})
        sc.add_aircraft("p", family_G("g2", N=4), state={"velocity": [100.0, 3.0, 6.0], "angular_rates": [0.05, 0.02, -0.03], "orientation": [4.0, 6.0, 10.0]})
        sc.solve_forces()
        N = sc._N
        V = sc._V_inf_in_plane if inp["in_plane"] else sc._V_inf
        A = np.zeros((N, N))
        for i in range(N):
            for j in range(N):
                A[i, j] = -V[i] * sc._CLa_lin[i] * sc._dS[i] * (sc._V_ji[i, j] @ sc._u_n[i]) if hasattr(sc, "_CLa_lin") else 0.0
        # the linear solution must satisfy the documented system built from the freestream section properties
        sc._calc_invariant_flow_properties()
        CLa, CL = np.array(sc._CLa), np.array(sc._CL)
        A = -(V * CLa * sc._dS)[:, None] * np.einsum('ijk,ik->ij', sc._V_ji, sc._u_n)
        A[np.diag_indices(N)] += 2.0 * np.linalg.norm(np.cross(sc._v_inf_and_rot, sc._dl), axis=1)
        b = V * V * sc._dS * CL
        sc2 = MX.Scene({"units": "English", "solver": {"type": "linear", "use_in_plane": inp["in_plane"]}, "scene": {"atmosphere": {"rho": 0.0023769}}})
        sc2.add_aircraft("p", family_G("g2", N=4), state={"velocity": [100.0, 3.0, 6.0], "angular_rates": [0.05, 0.02, -0.03], "orientation": [4.0, 6.0, 10.0]})
        sc2.solve_forces()
        r = A @ sc2._gamma - b
        if np.linalg.norm(r) > 1e-8 * max(1.0, np.linalg.norm(b)):
            bad.append(("residual of the documented linear system", float(np.linalg.norm(r)), float(np.linalg.norm(b))))
    return {"reproduced": bool(bad), "key": "linear solver does not solve the documented system", "observed": bad, "what": "%s" % bad}


def replay_eq(inp):
    """converged loads on the given path with the given history vs a fresh scene on the default path (real solvers, cambered linear
    airfoil with a flap: the zero-lift angle depends on the flap deflection, the wing is swept)"""
    from checks.analysis import real_classes
    import machupX as MX
    from checks.families import family_G as FG
    bad = []
    with real_classes():
        def mk(stype, alpha, flap):
            d = FG("g5", N=4)
            sc = MX.Scene({"units": "English", "solver": {"type": stype, "convergence": 1e-11}, "scene": {"atmosphere": {"rho": 0.0023769}}})
            sc.add_aircraft("p", d, state={"velocity": 100.0, "alpha": alpha, "beta": 2.0}, control_state={"aileron": flap, "elevator": -flap})
            return sc
        fresh = mk("linear" if inp["type"] == "linear" else "nonlinear", 5.0, 8.0)
        b = fresh.solve_forces()["p"]["total"]
        if inp["history"] == "none":
            sc = mk(inp["type"], 5.0, 8.0)
        else:
            sc = mk(inp["type"], -2.0, -10.0)
            sc.solve_forces()
            sc.set_aircraft_state(state={"velocity": 100.0, "alpha": 5.0, "beta": 2.0})
            sc.set_aircraft_control_state(control_state={"aileron": 8.0, "elevator": -8.0})
        try:
            a = sc.solve_forces(initial_guess=inp["guess"])["p"]["total"]
            for k in b:
                if abs(a[k] - b[k]) > 1e-6 * max(abs(a[k]), abs(b[k]), 1e-3):
                    bad.append((k, a[k], b[k]))
        except Exception as e:
            if type(e).__name__ != "SolverNotConvergedError":
                bad.append(("exception", repr(e)))
    return {"reproduced": bool(bad), "key": "solver path %s/%s iterates on equations of another state" % (inp["type"], inp["guess"]), "observed": bad[:5],
            "what": "solve_forces(type=%s, initial_guess=%s, history=%s) converges to loads different from a fresh scene on the default path: %s" % (inp["type"], inp["guess"], inp["history"], bad[:3])}


REPLAYS = {"path": replay_path, "linear": replay_linear, "eq": replay_eq}


def main(tier, seed, only=None):
    ck = Check("C14", tier, seed, REPLAYS)
    facade.install()
    import machupX.scene as SC
    ck.encoded(SC.Scene.solve_forces, SC.Scene._solve_linear, SC.Scene._solve_nonlinear, SC.Scene._solve_w_scipy, SC.Scene._handle_error)
    ck.stub("FlowStub: _calc_invariant_flow_properties records the state it is called at and fills the flow arrays with fresh symbols",
            "ResidStub: _lifting_line_residual is an uninterpreted residual recording the flow tag in force", "linsolve (A x = b)", "fsolve: arbitrary x, ier = 1",
            "_integrate_forces_and_moments: recorder")
    ck.stub("Heq: Newton loop / fsolve replaced by one residual evaluation at an arbitrary circulation; flow properties, linear start, residual and integration are the real code; sections uninterpreted in (alpha, Re, Mach, flap)")
    ck.assume("reduced claim: every path evaluates the same residual function of the *current* state and the linear solver solves the documented system",
              "relaxation in (0,1], convergence > 0 symbolic; max_iterations = 2")
    ck.out_of_claim("equality of the converged loads across paths (needs uniqueness of the root of the lifting-line equations)",
                    "quadratic approach of the linear solution to the nonlinear one as all angles tend to zero (asymptotic statement)")
    tasks = []
    for stype in ("linear", "nonlinear", "scipy_fsolve"):
        for guess in ("linear", "previous"):
            for pre in (True, False):
                if only and "path" not in only:
                    continue
                if tier != "thorough" and stype == "linear" and guess == "previous" and not pre:
                    continue
                tasks.append(("%s %s %s" % (stype, guess, pre), lambda c, stype=stype, guess=guess, pre=pre: harness_path(c, stype, guess, pre)))
    for stype, guess, history in (("nonlinear", "previous", "none"), ("nonlinear", "previous", "solved-flag-cleared"), ("nonlinear", "previous", "solved-flag-kept"),
                                  ("nonlinear", "linear", "solved-flag-cleared"), ("scipy_fsolve", "linear", "solved-flag-cleared"), ("linear", "linear", "solved-flag-cleared")):
        if only and "eq" not in only:
            continue
        tasks.append(("eq %s %s %s" % (stype, guess, history), lambda c, stype=stype, guess=guess, history=history: harness_eq(c, stype, guess, history)))
    if not only or "lin" in only:
        tasks.append(("lin in-plane", lambda c: harness_lin(c, True)))
        tasks.append(("lin total", lambda c: harness_lin(c, False)))
    run_parallel(ck, tasks)
    ck.bound(N="2 sections (one-segment aircraft); the dispatch logic does not depend on N", loop_unrolling=2, histories="one earlier solve + direct state change, _solved either way")
    ck.rung("Hpath, Hlin, Heq")
    return ck.finish()
