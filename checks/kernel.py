"""Kernel-level harnesses: the real numeric kernels of Scene run on *arbitrary symbolic pre-states*.

A pre-state is a real Scene (real Airplane / WingSegment objects of a bounded family give the skeleton: sizes, segment
structure, names) whose stored arrays are replaced by fresh symbols, so one run covers every geometry of that size.
"""
import copy
import itertools

import numpy as np
import z3

from symx import facade, smt
from symx.values import SR, SB, sym, ctx, zexpr, simp, exact, Ctx
from symx.facade import wrap, SA
from symx.smt import Obligation
from symx.rel import Aligner, cone_defs

from checks.families import family_G, simple_airplane, UFAirfoil, LinearAirfoil, use_airfoil


def symarr(prefix, shape):
    a = np.empty(shape, dtype=object)
    for idx in np.ndindex(*shape) if shape else [()]:
        a[idx] = sym("%s_%s" % (prefix, "_".join(map(str, idx)))) if shape else sym(prefix)
    return a.view(SA)


def build_scene(members=("g1",), N=1, solver=None, airfoil=UFAirfoil, units="English"):
    """real Scene with concrete aircraft of family G (N vortices per semispan segment), airfoils replaced by stand-ins"""
    import machupX as MX
    use_airfoil(airfoil)
    try:
        scene_input = {"units": units, "solver": dict(solver or {}), "scene": {"atmosphere": {"rho": 0.0023769}}}
        sc = MX.Scene(scene_input)
        for i, m in enumerate(members):
            sc.add_aircraft("ac%d" % i, family_G(m, N=N), state={"velocity": [100.0, 0.0, 5.0], "position": [30.0 * i, 12.0 * i, -3.0 * i]})
    finally:
        use_airfoil(None)
    return sc


GEOM_ARRAYS = ["_PC", "_r_CG", "_dl", "_u_a", "_u_n", "_u_s", "_c_bar", "_dS"]


def symbolise_for_integration(sc, tag="k"):
    """arbitrary pre-state of _integrate_forces_and_moments / distributions: every array it reads becomes symbolic.
    The induced velocity is arbitrary: _V_ji = 0 (exact) and _v_inf_and_rot symbolic make _calc_v_i return an arbitrary v_i."""
    N = sc._N
    st = {}
    for nm, shape in (("_gamma", (N,)), ("_rho", (N,)), ("_nu", (N,)), ("_a", (N,)), ("_dS", (N,)), ("_c_bar", (N,)), ("_dl", (N, 3)), ("_r_CG", (N, 3)),
                      ("_u_a", (N, 3)), ("_u_n", (N, 3)), ("_u_s", (N, 3)), ("_v_inf_and_rot", (N, 3)), ("_PC", (N, 3)), ("_C_sweep_inv", (N,)),
                      ("_V_inf", (N,)), ("_u_inf", (N, 3)), ("_V_inf_in_plane", (N,)), ("_aL0", (N,)), ("_section_sweep", (N,)), ("_CL", (N,))):
        arr = symarr("%s%s" % (tag, nm), shape)
        setattr(sc, nm, arr)
        st[nm] = arr
    sc._V_ji = facade._obj((N, N, 3), exact(0))
    sc._V_inf_and_rot = symarr("%s_Vinfrot" % tag, (N,))
    # in-plane projector as the real code builds it from u_s
    if sc._use_in_plane:
        sc._P_in_plane = facade.NP.repeat(facade.NP.identity(3)[np.newaxis, :, :], N, axis=0) - facade.NP.matmul(sc._u_s[:, :, np.newaxis], sc._u_s[:, np.newaxis, :])
    # per-aircraft symbolic state and reference quantities
    for k, ap in enumerate(sc._airplane_objects):
        ap.q = symarr("%s_q%d" % (tag, k), (4,))
        ap.v = symarr("%s_v%d" % (tag, k), (3,))
        ap.p_bar = symarr("%s_p%d" % (tag, k), (3,))
        ap.S_w = sym("%s_Sw%d" % (tag, k))
        ap.l_ref_lon = sym("%s_lon%d" % (tag, k))
        ap.l_ref_lat = sym("%s_lat%d" % (tag, k))
        ap.u_a_unswept = symarr("%s_uau%d" % (tag, k), (ap.N, 3))
        ap.u_n_unswept = symarr("%s_unu%d" % (tag, k), (ap.N, 3))
        for seg in ap.segments:
            seg._delta_flap = symarr("%s_df_%s" % (tag, seg.name), (seg.N,))
            seg._cp_c_f = symarr("%s_cf_%s" % (tag, seg.name), (seg.N,))
    # atmosphere at the aircraft origins: uninterpreted functions of position, here fresh symbols per aircraft
    W = symarr("%s_W" % tag, (3,))
    rho_ref = {id(ap): sym("%s_rhoref%d" % (tag, k)) for k, ap in enumerate(sc._airplane_objects)}

    def get_wind(pos):
        p = np.asarray(pos, dtype=object)
        if p.ndim == 1:
            return W
        return facade.wrap(np.array([list(W)] * p.shape[0], dtype=object))

    def get_density(pos):
        for ap in sc._airplane_objects:
            if all(simp(zexpr(a)).get_id() == simp(zexpr(b)).get_id() for a, b in zip(np.asarray(pos, dtype=object).reshape(-1), ap.p_bar)):
                return rho_ref[id(ap)]
        raise RuntimeError("density requested at an unexpected position")
    sc._get_wind = get_wind
    sc._get_density = get_density
    st["W"] = W
    st["rho_ref"] = rho_ref
    sc._FM = {}
    return st


def unit_assumptions(sc, tag="k"):
    out = []
    for k, ap in enumerate(sc._airplane_objects):
        qs = [z3.Real("%s_q%d_%d" % (tag, k, i)) for i in range(4)]
        out.append(sum(x * x for x in qs) == 1)
    return out


# ---- reference model of the load integration (C02), written from the property statement --------------------------
def ref_sections(sc, st):
    """per-section loads in the Earth frame: dF_inv = rho Gamma v x dl; dF_visc = q_ref dS CD u_drag;
    dM_inv = r x dF_inv + q_plane dS c Cm u_s; dM_visc = r x dF_visc   (CD, Cm: the section coefficients the code evaluated)"""
    NP = facade.NP
    N = sc._N
    use_total, in_plane = sc._use_total_velocity, sc._use_in_plane
    v = st["_v_inf_and_rot"]                       # v_i (V_ji = 0)
    rho, gam, dS, c, dl, r, us = st["_rho"], st["_gamma"], st["_dS"], st["_c_bar"], st["_dl"], st["_r_CG"], st["_u_s"]
    CD, Cm = sc._CD, sc._Cm
    out = {"dF_inv": [], "dF_visc": [], "dM_inv": [], "dM_visc": []}
    for i in range(N):
        vi = v[i]
        V2 = vi[0] * vi[0] + vi[1] * vi[1] + vi[2] * vi[2]
        dFi = (rho[i] * gam[i]) * NP.cross(vi, dl[i])
        if use_total:
            qfull = 0.5 * rho[i] * V2 * dS[i]
            udrag = vi / NP.sqrt(V2)
            if in_plane:
                dot = vi[0] * us[i][0] + vi[1] * us[i][1] + vi[2] * us[i][2]
                vp = [vi[a] - us[i][a] * dot for a in range(3)]      # component of v_i normal to the span axis (P = I - u_s u_s^T)
                qpl = 0.5 * rho[i] * (vp[0] * vp[0] + vp[1] * vp[1] + vp[2] * vp[2]) * dS[i]
            else:
                qpl = qfull
        else:
            qfull = 0.5 * rho[i] * st["_V_inf"][i] * st["_V_inf"][i] * dS[i]
            udrag = st["_u_inf"][i]
            qpl = 0.5 * rho[i] * st["_V_inf_in_plane"][i] * st["_V_inf_in_plane"][i] * dS[i] if in_plane else qfull
        dFv = (qfull * CD[i]) * udrag
        out["dF_inv"].append(dFi)
        out["dF_visc"].append(dFv)
        out["dM_inv"].append(NP.cross(r[i], dFi) + (qpl * c[i] * Cm[i]) * us[i])
        out["dM_visc"].append(NP.cross(r[i], dFv))
    return out


def ref_totals(sc, st, opts, sec):
    """sums of section loads per segment / aircraft, body frame = R(q)^T, wind triad, stability axes, coefficients.
    sec: dict of the four per-section arrays (N x 3)"""
    NP = facade.NP
    from machupX.helpers import quat_trans
    out = {}
    idx = 0
    for ap in sc._airplane_objects:
        name = ap.name
        q = ap.q
        vinf = -ap.v + st["W"]
        Vinf2 = vinf[0] * vinf[0] + vinf[1] * vinf[1] + vinf[2] * vinf[2]
        Vinf = NP.sqrt(Vinf2)
        u_inf = quat_trans(q, vinf / Vinf)
        yb = [0.0, 1.0, 0.0]
        ul = NP.cross(u_inf, yb)
        ul = ul / NP.sqrt(ul[0] * ul[0] + ul[1] * ul[1] + ul[2] * ul[2])
        us_ = NP.cross(ul, u_inf)
        us_ = us_ / NP.sqrt(us_[0] * us_[0] + us_[1] * us_[1] + us_[2] * us_[2])
        ux = NP.cross(ul, yb)
        ux = ux / NP.sqrt(ux[0] * ux[0] + ux[1] * ux[1] + ux[2] * ux[2])
        rot = {"body": None, "wind": [u_inf, us_, ul], "stab": [ux, facade.wrap(np.array(yb)), -ul]}
        nd = 1.0 / (0.5 * st["rho_ref"][id(ap)] * Vinf2 * ap.S_w)
        res = {"total": {}, "inviscid": {}, "viscous": {}}
        segs = []
        for seg in ap.segments:
            tot = {}
            for nm in ("dF_inv", "dM_inv", "dF_visc", "dM_visc"):
                acc = [SR(0.0)] * 3
                for i in range(idx, idx + seg.N):
                    acc = [acc[a] + sec[nm][i][a] for a in range(3)]
                tot[nm] = quat_trans(q, facade.wrap(np.array(acc, dtype=object)))
            idx += seg.N
            segs.append((seg.name, [tot["dF_inv"], tot["dM_inv"], tot["dF_visc"], tot["dM_visc"]]))
        frames = [f for f, on in (("body", opts.get("body_frame", True)), ("stab", opts.get("stab_frame", False)), ("wind", opts.get("wind_frame", True))) if on]
        KEYS = {("body", "d"): ["Fx", "Fy", "Fz", "Mx", "My", "Mz"], ("body", "nd"): ["Cx", "Cy", "Cz", "Cl", "Cm", "Cn"],
                ("stab", "d"): ["Fx_s", "Fy_s", "Fz_s", "Mx_s", "My_s", "Mz_s"], ("stab", "nd"): ["Cx_s", "Cy_s", "Cz_s", "Cl_s", "Cm_s", "Cn_s"],
                ("wind", "d"): ["FD", "FS", "FL", "Mx_w", "My_w", "Mz_w"], ("wind", "nd"): ["CD", "CS", "CL", "Cl_w", "Cm_w", "Cn_w"]}

        def to_frame(vec, f):
            if f == "body":
                return [vec[0], vec[1], vec[2]]
            R = rot[f]
            return [R[a][0] * vec[0] + R[a][1] * vec[1] + R[a][2] * vec[2] for a in range(3)]
        lens = [1.0, 1.0, 1.0, ap.l_ref_lat, ap.l_ref_lon, ap.l_ref_lat]
        for f in frames:
            tot_inv = [SR(0.0)] * 6
            tot_vis = [SR(0.0)] * 6
            for sname, (Fi, Mi, Fv, Mv) in segs:
                vi6 = to_frame(Fi, f) + to_frame(Mi, f)
                vv6 = to_frame(Fv, f) + to_frame(Mv, f)
                tot_inv = [tot_inv[a] + vi6[a] for a in range(6)]
                tot_vis = [tot_vis[a] + vv6[a] for a in range(6)]
                if opts.get("report_by_segment", False):
                    for kind, on in (("d", opts.get("dimensional", True)), ("nd", opts.get("non_dimensional", True))):
                        if not on:
                            continue
                        for a, key in enumerate(KEYS[(f, kind)]):
                            sc_ = 1.0 if kind == "d" else nd / lens[a]
                            res["inviscid"].setdefault(key, {})[sname] = vi6[a] * sc_
                            res["viscous"].setdefault(key, {})[sname] = vv6[a] * sc_
            for kind, on in (("d", opts.get("dimensional", True)), ("nd", opts.get("non_dimensional", True))):
                if not on:
                    continue
                for a, key in enumerate(KEYS[(f, kind)]):
                    sc_ = 1.0 if kind == "d" else nd / lens[a]
                    res["inviscid"].setdefault(key, {})["total"] = tot_inv[a] * sc_
                    res["viscous"].setdefault(key, {})["total"] = tot_vis[a] * sc_
                    res["total"][key] = (tot_inv[a] + tot_vis[a]) * sc_
        out[name] = res
    return out


def flatten_fm(fm):
    """{aircraft: {kind: {key: value | {seg: value}}}} -> {path string: value}"""
    out = {}
    for ac, d in fm.items():
        for kind, dd in d.items():
            for key, val in dd.items():
                if isinstance(val, dict):
                    for s_, v in val.items():
                        out["%s/%s/%s/%s" % (ac, kind, key, s_)] = v
                else:
                    out["%s/%s/%s" % (ac, kind, key)] = val
    return out


# ---- Galilean kernel lemma (used by C11): the pipeline sees the wind and the aircraft velocity only through their difference -------------
def galilean_lemma(ck, tier):
    """twin run of the numeric pipeline: run A with wind W and Earth-frame velocity v, run B with W + U and v + U (U arbitrary, uniform).
    Every cut array, the residual for an arbitrary circulation and every integrated result are equal.  This justifies keying the
    lifting-line contract stub (LLsolve) of the analysis harnesses on the air-relative state."""
    import z3
    from symx.explore import explore
    from symx.harness import Finding
    from symx.smt import Obligation
    from symx.values import SR, sym, zexpr, ctx, Ctx
    from symx.facade import wrap
    from checks import twin as TW
    from checks.C04 import build
    from checks.families import family_G
    plan = [("m1", 2)] + ([("g3", 2)] if tier == "thorough" else [])
    for member, N in plan:
        label = "Hker Galilean shift %s" % member

        def run(member=member, N=N):
            c = ctx()
            c.where_assume_true = True
            q = [sym("q%d" % i) for i in range(4)]
            c.declare_unit(q)
            U = [sym("U0"), sym("U1"), sym("U2")]
            stA = {"q": q, "p": [sym("px"), sym("py"), sym("pz")], "v": [sym("vx"), sym("vy"), sym("vz")], "w": [sym("wp"), sym("wq"), sym("wr")],
                   "W": [sym("W0"), sym("W1"), sym("W2")]}
            stB = dict(stA, v=[a + b for a, b in zip(stA["v"], U)], W=[a + b for a, b in zip(stA["W"], U)])
            gam = None

            def pipeline(sc):
                nonlocal gam
                sc._perform_geometry_and_atmos_calcs()
                sc._calc_invariant_flow_properties()
                if gam is None:
                    gam = wrap(np.array([sym("gam%d" % i) for i in range(sc._N)], dtype=object))
                R = sc._lifting_line_residual(gam)
                sc._FM = {}
                sc._integrate_forces_and_moments(body_frame=True, stab_frame=True, wind_frame=True, report_by_segment=True)
                return {"R": list(R), "FM": flatten_fm(sc._FM)}
            tw = TW.Twin(TW.Transform(name="Galilean shift"), align=False)
            full = dict(use_swept_sections=True, use_total_velocity=True, use_in_plane=True)
            outA, outB, scA, scB = tw.run(lambda: build(family_G(member, N=N), stA, full, N), lambda: build(family_G(member, N=N), stB, full, N), pipeline)
            return {"A": outA, "B": outB, "tw": tw}
        res = explore(run, max_paths=4)
        ck.add_paths(res)
        for p in res:
            lab = "%s path%s" % (label, "".join("1" if d else "0" for d in p.decisions))
            if not p.ok:
                ck.inconc("%s: %s %r %s" % (lab, p.kind, p.exc, (p.tb or "")[-500:]))
                continue
            Ctx.cur = p.ctx
            v = p.value
            tw, A, B = v["tw"], v["A"], v["B"]
            mk = lambda ob, member=member: Finding("twin", {"analysis": "solve_forces", "form": "vector", "what": ob.label}, ob.label, ob.model)
            obs = list(tw.obligs)
            for ob in obs:
                ob.label = lab + " " + ob.label
            for i, (ra, rb) in enumerate(zip(A["R"], B["R"])):
                obs.append(tw.result_obligation("%s residual[%d] invariant" % (lab, i), rb, ra))
            obs.append(Obligation(lab + " result key set", [], z3.BoolVal(set(A["FM"]) == set(B["FM"]))))
            for k in sorted(set(A["FM"]) & set(B["FM"])):
                obs.append(tw.result_obligation("%s %s invariant" % (lab, k), B["FM"][k], A["FM"][k]))
            for ob in obs:
                ob.meta["finding"] = mk
            cg = zexpr(SR(B["FM"]["p/total/Fz"])) == zexpr(SR(A["FM"]["p/total/Fz"])) + 1
            obs += [Obligation(lab + " canary", tw._facts_for(p.ctx, cg), cg, canary=True),
                    Obligation(lab + " reach", list(p.ctx.assumptions) + list(p.ctx.pc), z3.BoolVal(True), witness=True)]
            ck.add(obs)
            ck.sample({"case": label, "cut_obligations": len(tw.obligs), "result_keys": len(A["FM"])})
        Ctx.cur = None
