"""C11 -- Galilean invariance: only air-relative motion matters under uniform wind.

Hker  real kernel methods (_calc_invariant_flow_properties, _lifting_line_residual, _integrate_forces_and_moments,
      distributions, _get_aircraft_q_inf) on a scene with symbolic velocity v and uniform wind W versus the same scene with
      velocity v - W in still air (exact zero): every intermediate array the solve depends on, the residual for arbitrary
      circulation and every result key are equal.  (checks/kernel.py)
Han   every analysis as a twin run (v, W) vs (v - W, 0) with the lifting-line solve replaced by an uninterpreted function
      of the *air-relative* stored state (justified by Hker): derivatives, aerodynamic centre, trims, target_CL agree.
"""
import numpy as np
import z3

from symx import facade, smt
from symx.explore import explore
from symx.harness import Check, Finding
from symx.smt import Obligation
from symx.values import SR, sym, zexpr, ctx, simp, exact
from symx.rel import cone_defs

from checks import analysis as AN
from checks import refmodels as RM
from checks.C09 import setup_ctx, model_vals, _sanitise, NAME
from checks.C08 import extra_assumptions
from checks.families import family_G


def make_twin_specs(symbolic, vals=None, member="g5", form="vector"):
    """scene A: wind W, Earth-fixed velocity v;  scene B: still air (exact 0), Earth-fixed velocity v - W.
    form 'vector': state given as body-fixed velocity vector (Earth-relative);  'aero': as airspeed, alpha, beta (air-relative)."""
    vals = vals or {}

    def S(n, d):
        return sym(n) if symbolic else float(vals.get(n, d))
    W = [S("W0", 12.0), S("W1", -7.0), S("W2", 3.0)]
    q = [S("q0", 0.96), S("q1", 0.1), S("q2", -0.2), S("q3", 0.15)]
    if not symbolic:
        qa = np.array(q, dtype=float)
        n = np.linalg.norm(qa)
        q = list(qa / n) if n > 1e-9 else [1.0, 0.0, 0.0, 0.0]
    common = {"position": [S("px", 100.0), S("py", -50.0), S("pz", -1000.0)], "orientation": q,
              "angular_rates": [S("wp", 0.05), S("wq", -0.03), S("wr", 0.02)]}
    controls = {"aileron": S("da", 2.0), "elevator": S("de", -1.5)}
    if form == "vector":
        vb = [S("u", 98.0), S("v", 4.0), S("w", 9.0)]
        # wind expressed in body axes: R(q)^T W
        if symbolic:
            from machupX.helpers import quat_trans
            Wb = quat_trans(facade.wrap(np.array(q, dtype=object)), facade.wrap(np.array(W, dtype=object)))
        else:
            from machupX.helpers import quat_trans
            Wb = quat_trans(np.array(q, dtype=float), np.array(W, dtype=float))
        stA = dict(common, velocity=list(vb))
        stB = dict(common, velocity=[vb[i] - Wb[i] for i in range(3)])
    else:
        aero = {"velocity": S("V", 100.0), "alpha": S("al", 4.0), "beta": S("be", -3.0)}
        stA = dict(common, **aero)
        stB = dict(common, **aero)
    zero = [exact(0), exact(0), exact(0)] if symbolic else [0.0, 0.0, 0.0]
    mk = lambda W_, st: {"scene": {"units": "English", "scene": {"atmosphere": {"rho": 0.0023769, "V_wind": W_}}},
                         "aircraft": {NAME: {"input": family_G(member), "state": st, "controls": dict(controls)}}}
    return mk(W, stA), mk(zero, stB), W, q


ANALYSES = [
    ("solve_forces", lambda sc: sc.solve_forces(stab_frame=True)[NAME]["total"]),
    ("stability_derivatives", lambda sc: sc.stability_derivatives()[NAME]),
    ("damping_derivatives", lambda sc: sc.damping_derivatives()[NAME]),
    ("control_derivatives", lambda sc: sc.control_derivatives()[NAME]),
    ("aero_center", lambda sc: (lambda r: {"x": r["aero_center"][0], "y": r["aero_center"][1], "z": r["aero_center"][2], "Cm_ac": r["Cm_ac"]})(sc.aero_center()[NAME])),
    ("pitch_trim", lambda sc: sc.pitch_trim(set_trim_state=False, max_iterations=1)[NAME]),
    ("target_CL", lambda sc: {"alpha": sc.target_CL(CL=sym("CLt") if _SYMBOLIC[0] else 0.4, set_state=False, max_iterations=1, control_state={"elevator": 1.0})}),
    ("pitch_trim_using_orientation", lambda sc: _orient_result(sc)),
    ("state_derivatives", lambda sc: sc.state_derivatives(**({"dx": sym("dx"), "dV": sym("dV"), "de": sym("dde"), "dw": sym("dw")} if _SYMBOLIC[0] else {}))[NAME]),
    ("distributions", lambda sc: _dist_result(sc)),
]
_SYMBOLIC = [True]


def _orient_result(sc):
    st, cs = sc.pitch_trim_using_orientation(set_trim_state=False, max_iterations=1)
    # air-relative body velocity of the returned state (the returned velocity itself is Earth-relative)
    from machupX.helpers import quat_trans
    if _SYMBOLIC[0]:
        q = facade.wrap(np.array(st["orientation"], dtype=object))
        Wb = quat_trans(q, sc._get_wind(facade.wrap(np.array(st["position"], dtype=object))))
    else:
        q = np.array(st["orientation"], dtype=float)
        Wb = quat_trans(q, sc._get_wind(np.array(st["position"], dtype=float)))
    out = {"q%d" % i: st["orientation"][i] for i in range(4)}
    out.update({"vrel%d" % i: st["velocity"][i] - Wb[i] for i in range(3)})
    out.update({"c_" + k: v for k, v in cs.items()})
    return out


def _dist_result(sc):
    d = sc.distributions()[NAME]
    out = {}
    for seg, dd in d.items():
        for k in ("Fx", "Fz", "My", "section_CL", "alpha", "CD_i", "u", "q"):
            for i, v in enumerate(dd[k]):
                out["%s.%s[%d]" % (seg, k, i)] = v
    return out


def setup_twin(c):
    setup_ctx(c)
    c.fork_entail = True     # a test repeated by the second run on a provably equal value does not fork again
    c.site_align = True      # scalar atoms (sites with few atoms) are aligned eagerly with provably equal earlier ones


def run_twin(fn, form):
    w = AN.new_world()
    w.key_mode = "air"
    specA, specB, W, q = make_twin_specs(True, form=form)
    labA, labB = RM.Lab(specA, True), RM.Lab(specB, True)

    def call(lab):
        try:
            return fn(lab.fresh())
        except Exception as e:
            if type(e).__name__ == "MaxIterationError":
                return {"__raised__": 1.0}
            raise
    a = call(labA)
    nA = len(w.calls)
    b = call(labB)
    return {"A": a, "B": b, "world": w, "nA": nA}


def harness(ck, label, fn, form):
    assum = [z3.Real("CLt") > -2, z3.Real("CLt") < 2] + extra_assumptions() + [z3.Real(n) > 0 for n in ("dx", "dV", "dde", "dw")]
    res = explore(lambda: run_twin(fn, form), assumptions=assum, max_paths=16, setup=setup_twin)
    ck.add_paths(res)
    for p in res:
        lab = "%s[%s] path%s" % (label, form, "".join("1" if d else "0" for d in p.decisions))
        if not p.ok:
            ck.inconc("%s: %s %r %s" % (lab, p.kind, p.exc, (p.tb or "")[-400:]))
            continue
        v = p.value
        A, B = v["A"], v["B"]

        def mk(ob, label=label, form=form):
            return Finding("twin", {"analysis": label, "form": form, "vals": model_vals(ob.model)}, ob.label, ob.model)
        ck.add([Obligation(lab + " key set", [], z3.BoolVal(set(A) == set(B)), meta={"finding": mk})])
        keys = sorted(set(A) & set(B))
        base_facts = list(p.ctx.assumptions) + list(p.ctx.pc)
        for i in range(0, len(keys), 8):
            ch = keys[i:i + 8]
            g = z3.And(*[zexpr(SR(A[k])) == zexpr(SR(B[k])) for k in ch])
            ck.add([Obligation("%s keys %s..%s" % (lab, ch[0], ch[-1]), base_facts + cone_defs(p.ctx, [g]), g, meta={"finding": mk})])
        if keys:
            k = keys[len(keys) // 2]
            ck.add([Obligation(lab + " canary", base_facts, zexpr(SR(A[k])) == zexpr(SR(B[k])) + 1, canary=True),
                    Obligation(lab + " reach", base_facts, z3.BoolVal(True), witness=True)])
        if len(ck.samples) < 4:
            ck.sample({"analysis": label, "form": form, "keys": len(keys), "LLsolve_calls_A": v["nA"], "LLsolve_calls_B": len(v["world"].calls) - v["nA"],
                       "distinct_result_symbols": len(set(c["k"] for c in v["world"].calls))})


# ---- lemma: the real aerodynamic-angle getter / setter (the analyses above run with their trigonometric core abstracted) ----------
def harness_aero_pair(ck):
    """real Airplane.get_aerodynamic_state / set_aerodynamic_state: (a) Galilean twin get_W(v) == get_0(v - W), set_W(a,b,V) - W == set_0(a,b,V);
    (b) the inverse-trig atoms of the getter receive the *body-frame air-relative* components: atan2(x_z, x_x), asin(x_y / |x|), |x| with x = R(q)^T (v - W)."""
    import machupX as MX
    from machupX.helpers import quat_trans, quat_inv_trans
    real_get, real_set = AN._patched["get"], AN._patched["set"]

    def run():
        c = ctx()
        setup_ctx(c)
        AN.new_world()
        sc = MX.Scene({"units": "English", "scene": {"atmosphere": {"rho": 0.0023769}}})
        sc.add_aircraft("p", family_G("g1"), state={"velocity": [100.0, 0.0, 5.0]})
        ap = sc._airplanes["p"]
        q = facade.wrap(np.array([sym("q%d" % i) for i in range(4)], dtype=object))
        v = facade.wrap(np.array([sym("ve%d" % i) for i in range(3)], dtype=object))
        W = facade.wrap(np.array([sym("W%d" % i) for i in range(3)], dtype=object))
        Z = facade.wrap(np.array([exact(0), exact(0), exact(0)], dtype=object))
        ap.q = q
        ap.v = v
        n0 = len(c.events)
        gW = real_get(ap, v_wind=W)
        evs = c.events[n0:]
        ap.v = v - W
        g0 = real_get(ap, v_wind=Z)
        x = quat_trans(q, v - W)
        a_, b_, V_ = sym("sa"), sym("sb"), sym("sV")
        ap.v = v
        real_set(ap, alpha=a_, beta=b_, velocity=V_, v_wind=W)
        sW = list(ap.v)
        ap.v = v - W
        real_set(ap, alpha=a_, beta=b_, velocity=V_, v_wind=Z)
        s0 = list(ap.v)
        return {"gW": gW, "g0": g0, "evs": evs, "x": list(x), "sW": sW, "s0": s0, "W": list(W)}
    res = explore(run, assumptions=[z3.Real("sV") > 0], max_paths=4)
    ck.add_paths(res)
    for p in res:
        if not p.ok:
            ck.inconc("aero pair: %s %r %s" % (p.kind, p.exc, (p.tb or "")[-300:]))
            continue
        v = p.value
        base = list(p.ctx.assumptions) + list(p.ctx.pc)
        mk = lambda ob: Finding("aeropair", {}, ob.label, ob.model)

        def ob(label, g):
            return Obligation("aero pair " + label, base + cone_defs(p.ctx, [g]), g, meta={"finding": mk})
        obs = [ob("getter: Galilean twin (alpha, beta, V)", z3.And(*[zexpr(SR(a)) == zexpr(SR(b)) for a, b in zip(v["gW"], v["g0"])])),
               ob("setter: Galilean twin (v - W)", z3.And(*[zexpr(SR(a)) - zexpr(SR(w)) == zexpr(SR(b)) for a, w, b in zip(v["sW"], v["W"], v["s0"])]))]
        kinds = [e[1] for e in v["evs"]]
        x = v["x"]
        try:
            sq = [e for e in v["evs"] if e[1] == "sqrt"][0]
            at = [e for e in v["evs"] if e[1] == "atan2"][0]
            asn = [e for e in v["evs"] if e[1] == "asin"][0]
            g = z3.And(sq[2][0] == zexpr(x[0] * x[0] + x[1] * x[1] + x[2] * x[2]), at[2][0] == zexpr(x[2]), at[2][1] == zexpr(x[0]), asn[2][0] * sq[0] == zexpr(x[1]))
            obs.append(ob("getter: atan2(x_z, x_x), asin(x_y/|x|), |x| of the body-frame air-relative velocity", g))
        except IndexError:
            obs.append(Obligation("aero pair getter structure (sqrt, atan2, asin): %s" % kinds, [], z3.BoolVal(False), meta={"finding": mk}))
        obs.append(Obligation("aero pair canary", base, zexpr(SR(v["gW"][2])) == zexpr(SR(v["g0"][2])) + 1, canary=True))
        ck.add(obs)


def replay_aeropair(inp):
    from machupX.helpers import quat_trans
    import machupX as MX
    rng = np.random.RandomState(4)
    bad = []
    with AN.real_classes():
        sc = MX.Scene({"units": "English", "scene": {"atmosphere": {"rho": 0.0023769}}})
        sc.add_aircraft("p", family_G("g1"), state={"velocity": [100.0, 0.0, 5.0]})
        ap = sc._airplanes["p"]
        for _ in range(3):
            q = rng.normal(size=4); q /= np.linalg.norm(q)
            v = rng.uniform(-1, 1, size=3) * 30 + np.array([100.0, 0, 0]); W = rng.uniform(-20, 20, size=3)
            ap.q = q
            ap.v = v.copy(); gW = ap.get_aerodynamic_state(v_wind=W)
            ap.v = v - W; g0 = ap.get_aerodynamic_state(v_wind=np.zeros(3))
            x = quat_trans(q, v - W)
            ref = (np.degrees(np.arctan2(x[2], x[0])), np.degrees(np.arcsin(x[1] / np.linalg.norm(x))), np.linalg.norm(x))
            if not np.allclose(gW, g0, rtol=1e-9, atol=1e-9):
                bad.append("get_aerodynamic_state(v, W) = %s but (v - W, 0) gives %s" % (np.round(gW, 5).tolist(), np.round(g0, 5).tolist()))
            if not np.allclose(gW, ref, rtol=1e-9, atol=1e-9):
                bad.append("get_aerodynamic_state = %s, body-frame air-relative angles are %s" % (np.round(gW, 5).tolist(), np.round(ref, 5).tolist()))
            ap.v = v.copy(); ap.set_aerodynamic_state(alpha=4.0, beta=-3.0, velocity=90.0, v_wind=W); sW = ap.v.copy()
            ap.v = v - W; ap.set_aerodynamic_state(alpha=4.0, beta=-3.0, velocity=90.0, v_wind=np.zeros(3)); s0 = ap.v.copy()
            if not np.allclose(sW - W, s0, rtol=1e-9, atol=1e-9):
                bad.append("set_aerodynamic_state with wind: v - W = %s, still air gives %s" % (np.round(sW - W, 5).tolist(), np.round(s0, 5).tolist()))
            if bad:
                break
    return {"reproduced": bool(bad), "key": "aero state getter/setter: " + ("getter" if any("get_" in b for b in bad) else "setter"), "observed": bad[:4], "what": "; ".join(bad[:2])}


# ---- replay ---------------------------------------------------------------------------------------------------------
REAL = {
    "solve_forces": lambda sc: sc.solve_forces(stab_frame=True)[NAME]["total"],
    "stability_derivatives": lambda sc: sc.stability_derivatives()[NAME],
    "damping_derivatives": lambda sc: sc.damping_derivatives()[NAME],
    "control_derivatives": lambda sc: sc.control_derivatives()[NAME],
    "aero_center": lambda sc: (lambda r: {"x": r["aero_center"][0], "y": r["aero_center"][1], "z": r["aero_center"][2], "Cm_ac": r["Cm_ac"]})(sc.aero_center()[NAME]),
    "pitch_trim": lambda sc: sc.pitch_trim(set_trim_state=False)[NAME],
    "target_CL": lambda sc: {"alpha": sc.target_CL(CL=0.4, set_state=False, control_state={"elevator": 1.0})},
    "state_derivatives": lambda sc: sc.state_derivatives()[NAME],
}


def replay_twin(inp):
    name, form = inp["analysis"], inp["form"]
    rng = np.random.RandomState(2)
    cands = [inp.get("vals", {})] + [{"W0": rng.uniform(-20, 20), "W1": rng.uniform(-20, 20), "W2": rng.uniform(-5, 5), "u": rng.uniform(90, 110), "v": rng.uniform(-5, 5),
                                      "w": rng.uniform(2, 9), "q0": 1.0, "q1": rng.uniform(-.1, .1), "q2": rng.uniform(-.1, .1), "q3": rng.uniform(-.3, .3),
                                      "wp": rng.uniform(-.05, .05), "wq": rng.uniform(-.05, .05), "wr": rng.uniform(-.05, .05), "da": rng.uniform(-2, 2), "de": rng.uniform(-2, 2),
                                      "V": 100.0, "al": rng.uniform(0, 6), "be": rng.uniform(-4, 4)} for _ in range(2)]
    tried = []
    _SYMBOLIC[0] = False
    try:
        with AN.real_classes():
            for vals in cands:
                vals = _sanitise(vals)
                specA, specB, W, q = make_twin_specs(False, vals, form=form)
                try:
                    if name == "pitch_trim_using_orientation":
                        a = _orient_result(RM.Lab(specA, False).fresh())
                        b = _orient_result(RM.Lab(specB, False).fresh())
                    elif name == "distributions":
                        a = _dist_result(RM.Lab(specA, False).fresh())
                        b = _dist_result(RM.Lab(specB, False).fresh())
                    else:
                        a = REAL[name](RM.Lab(specA, False).fresh())
                        b = REAL[name](RM.Lab(specB, False).fresh())
                except Exception as e:
                    tried.append({"vals": vals, "error": repr(e)})
                    continue
                bad = {}
                for k in set(a) & set(b):
                    x, y = float(a[k]), float(b[k])
                    if not abs(x - y) <= 1e-6 * max(abs(x), abs(y), 1e-3) + 1e-8:
                        bad[k] = (x, y)
                if set(a) != set(b):
                    bad["__keys__"] = sorted(set(a) ^ set(b))
                tried.append({"vals": vals, "n_bad": len(bad)})
                if bad:
                    ks = sorted(bad)
                    return {"reproduced": True, "key": "%s not Galilean invariant [%s]" % (name, form), "observed": {"vals": vals, "bad": {k: bad[k] for k in ks[:5]}},
                            "what": "%s with wind %s and velocity v differs from still air with velocity v - W: %s" % (name, [vals.get("W%d" % i) for i in range(3)], {k: bad[k] for k in ks[:3]})}
    finally:
        _SYMBOLIC[0] = True
    return {"reproduced": False, "why": "agree at %d states" % len(tried), "observed": tried}


REPLAYS = {"twin": replay_twin, "aeropair": replay_aeropair}


def main(tier, seed, only=None):
    ck = Check("C11", tier, seed, REPLAYS)
    facade.install()
    AN.patch_classes()
    import machupX.scene as SC
    import machupX.airplane as AP
    ck.encoded(SC.Scene.stability_derivatives, SC.Scene.damping_derivatives, SC.Scene.control_derivatives, SC.Scene.state_derivatives, SC.Scene.aero_center,
               SC.Scene.pitch_trim, SC.Scene.pitch_trim_using_orientation, SC.Scene.target_CL, SC.Scene.distributions, SC.Scene._get_aircraft_q_inf,
               SC.Scene.add_aircraft, SC.Scene._initialize_wind_getter, AP.Airplane.set_state)
    ck.encoded(AP.Airplane.get_aerodynamic_state, AP.Airplane.set_aerodynamic_state)
    ck.stub("LLsolve keyed on the air-relative stored state (v_wind_i - v per control point, wind(p) - v), justified by the kernel lemma Hker",
            "AeroADT (wind / frame handling verbatim)")
    ck.assume("uniform wind (property)", "unit quaternion away from gimbal lock", "reals, not floats", "trim loops unrolled once")
    if not only or "kernel" in only:
        try:
            from checks import kernel
            kernel.galilean_lemma(ck, tier)
        except ImportError:
            ck.note("kernel lemma harness not available in this build")
    forms = ["vector", "aero"]
    tasks = []
    for label, fn in ANALYSES:
        if only and not any(o in label for o in only):
            continue
        for form in forms:
            if form == "aero" and label in ("state_derivatives", "pitch_trim_using_orientation", "distributions") and tier != "thorough":
                continue
            tasks.append(("%s[%s]" % (label, form), lambda c, label=label, fn=fn, form=form: harness(c, label, fn, form)))
    if not only or "aeropair" in only:
        tasks.append(("aero pair", harness_aero_pair))
    from symx.harness import run_parallel
    run_parallel(ck, tasks)
    ck.bound(aircraft="family member g5, N=8", state="all symbolic; both state encodings (body velocity vector / airspeed+alpha+beta)", loop_unrolling=1, max_paths=16)
    ck.rung("rung 1: analysis twins")
    return ck.finish()
