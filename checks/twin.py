"""Relational ("twin run") harness for the numeric pipeline of Scene:
   _perform_geometry_and_atmos_calcs -> _calc_invariant_flow_properties -> _lifting_line_residual(gamma) -> _integrate_forces_and_moments

Run A is executed first; at every *cut point* (an attribute assignment `self._x = ...` of the Scene, intercepted from outside)
its value is recorded and replaced by fresh names.  Run B (the transformed scene) is executed on the same path; at the same
cut point the harness (1) aligns the atoms requested since the previous cut with those of run A (event order), (2) emits the
obligation  value_B == T(names_A)  under the facts established so far and (3) continues with T(names_A).  All obligations are
discharged by the solver afterwards; a relation is *used* only downstream of the obligation that establishes it.
"""
import numpy as np
import z3

from symx import facade, smt
from symx.values import SR, SB, sym, ctx, zexpr, simp, exact, Ctx
from symx.facade import SA, wrap
from symx.smt import Obligation
from symx.rel import Aligner, Cut, name_array, cone_defs, default_rules, vars_of

# cut points and the kind of object stored there (how the transformation acts on it)
CUTS = {
    "_V_ji_const": "vec2",     # N x N x 3 influence of bound + jointed segments
    "_u_trailing_0": "vec", "_u_trailing_1": "vec",
    "_V_ji": "vec2",
    "_alpha_inf": "scalar",
    "_v_i": "vec",
    "_w_i": "vec", "_w_i_mag": "scalar",
    "_alpha": "scalar",
    "_dF_inv": "vec", "_dM_inv": "vec", "_dF_visc": "vec", "_dM_visc": "vec",
}


class Transform:
    """how run B relates to run A: per-aircraft maps for vectors / points, a factor table for scalars (default: invariant)"""

    def __init__(self, vec=None, scalar=None, index=None, name="T"):
        v = vec or (lambda x, k: x)                 # k = aircraft index of the row; a third parameter receives the attribute name
        try:
            nargs = v.__code__.co_argcount
        except AttributeError:
            nargs = 2
        self.vec = v if nargs >= 3 else (lambda x, k, attr, _v=v: _v(x, k))
        self.scalar = scalar or (lambda x, attr, k: x)
        self.index = index                          # optional row permutation: row i of B corresponds to row index(i) of A
        self.name = name


class Twin:
    def __init__(self, transform, rules=default_rules, align_timeout_ms=4000, facts=(), align=True):
        self.do_align = align
        self.T = transform
        self.rules = rules
        self.align_timeout_ms = align_timeout_ms
        self.names = {}          # attr -> named array of run A
        self.defs = []           # z3 equalities name == definition (run A)
        self.marksA = []         # (attr, event index)
        self.marksB = []
        self.obligs = []
        self.align_facts = list(facts)
        self.aligner = None
        self.mode = None
        self.stats = {"aligned": 0, "unmatched": 0, "align_queries": 0}
        self.unmatched = []
        self.cuts_seen_B = []

    def rows_aircraft(self, sc):
        out = []
        for k, sl in enumerate(sc._airplane_slices):
            out += [k] * (sl.stop - sl.start)
        return out

    def apply(self, attr, kind, arrA, sc):
        """T(names_A) for the object stored at attr"""
        rk = self.rows_aircraft(sc)
        a = np.asarray(arrA, dtype=object)
        idx = self.T.index
        if kind == "scalar":
            out = np.empty(a.shape, dtype=object)
            for i in range(a.shape[0]):
                src = idx(i) if idx else i
                out[i] = self.T.scalar(a[src], attr, rk[i])
            return out.view(SA)
        if kind == "vec":
            out = np.empty(a.shape, dtype=object)
            for i in range(a.shape[0]):
                src = idx(i) if idx else i
                out[i] = self.T.vec(a[src], rk[i], attr)
            return out.view(SA)
        if kind == "vec2":
            out = np.empty(a.shape, dtype=object)
            for i in range(a.shape[0]):
                for j in range(a.shape[1]):
                    si, sj = (idx(i), idx(j)) if idx else (i, j)
                    out[i, j] = self.T.vec2(a[si, sj], attr, rk[i], rk[j]) if hasattr(self.T, "vec2") else self.T.vec(a[si, sj], rk[i], attr)
            return out.view(SA)
        raise KeyError(kind)

    # ---- cut handlers ------------------------------------------------------------------------------------
    def handler(self, sc, cuts):
        def h(attr, value):
            c = ctx()
            if not isinstance(value, np.ndarray) or not facade.is_sym(value):
                return value
            kind = cuts[attr]
            if self.mode == "A":
                # the same attribute may be assigned several times (e.g. _alpha): keep a per-occurrence key
                n = sum(1 for a, _ in self.marksA if a == attr)
                key = "%s#%d" % (attr, n)
                named = name_array("cutA%s_%d" % (attr, n), value, record=self.defs_raw)
                self.names[key] = named.copy()          # the scene may go on to modify the stored array in place
                self.marksA.append((attr, len(c.events)))
                return named
            else:
                n = sum(1 for a, _ in self.marksB if a == attr)
                key = "%s#%d" % (attr, n)
                kcut = len(self.marksB)
                self.marksB.append((attr, len(c.events)))
                if key not in self.names or kcut >= len(self.marksA) or self.marksA[kcut][0] != attr:
                    self.obligs.append(Obligation("%s: cut sequence of run B matches run A at %s" % (self.T.name, key), [], z3.BoolVal(False)))
                    return value
                # (1) align the atoms requested since the previous cut
                a0 = self.marksA[kcut - 1][1] if kcut > 0 else self.startA
                a1 = self.marksA[kcut][1]
                b0 = self.marksB[kcut - 1][1] if kcut > 0 else self.startB
                b1 = len(c.events)
                self._align(c, c.events[a0:a1], c.events[b0:b1])
                fe = getattr(self.T, "fact_exp", {}).get(attr)
                if fe:
                    # multiplicative relation  value_B * f == names_A  (f = T.fact_base ** fe): run B continues with fresh names constrained
                    # by that relation, so that no reciprocal of the factor ever enters an expression
                    f = z3.RealVal(1)
                    for _ in range(fe):
                        f = f * zexpr(self.T.fact_base)
                    vB = np.asarray(value, dtype=object)
                    nA = np.asarray(self.names[key], dtype=object)
                    if vB.shape != nA.shape:
                        self.obligs.append(Obligation("%s: shape of %s" % (self.T.name, key), [], z3.BoolVal(False)))
                        return value
                    namedB = name_array("cutB%s_%d" % (attr, n), value, record=None)
                    fb, fa, fn = vB.reshape(-1), nA.reshape(-1), np.asarray(namedB, dtype=object).reshape(-1)
                    step = 3
                    for i in range(0, len(fb), step):
                        goal = z3.And(*[zexpr(SR(x)) * f == zexpr(SR(y)) for x, y in zip(fb[i:i + step], fa[i:i + step])])
                        if z3.is_true(z3.simplify(goal)):
                            continue
                        self.obligs.append(Obligation("%s: %s[%d..] * factor^%d == run A" % (self.T.name, key, i, fe), self._facts_for(c, goal), goal, meta={"cut": key}))
                    for x, y, vv in zip(fn, fa, fb):
                        if isinstance(vv, SR) and vv.c is None:
                            self.align_facts.append(zexpr(SR(x)) * f == zexpr(SR(y)))
                    return namedB
                # (2) obligation value_B == T(names_A)
                expected = self.apply(attr, kind, self.names[key], sc)
                vB = np.asarray(value, dtype=object)
                if vB.shape != expected.shape:
                    self.obligs.append(Obligation("%s: shape of %s" % (self.T.name, key), [], z3.BoolVal(False)))
                    return value
                flatB, flatE = vB.reshape(-1), np.asarray(expected, dtype=object).reshape(-1)
                step = 3 if kind != "scalar" else 4
                for i in range(0, len(flatB), step):
                    goal = z3.And(*[zexpr(SR(x)) == zexpr(SR(y)) for x, y in zip(flatB[i:i + step], flatE[i:i + step])])
                    if z3.is_true(z3.simplify(goal)):
                        continue
                    self.obligs.append(Obligation("%s: %s[%d..] == T(run A)" % (self.T.name, key, i), self._facts_for(c, goal), goal, meta={"cut": key}))
                # (3) continue with T(names_A)
                return expected.view(SA)
        return h

    def _facts_for(self, c, goal):
        gv = set(vars_of(goal).keys())
        defs = [d for d in self.defs if d.arg(0).get_id() in gv]
        base = list(c.assumptions) + list(self.align_facts)
        return base + defs + cone_defs(c, [goal] + defs)

    def _align(self, c, evA, evB):
        if not self.do_align:
            return
        al = Aligner(c, facts=list(c.assumptions) + list(self.align_facts), rules=self.rules, timeout_ms=self.align_timeout_ms)
        n0 = len(al.facts)
        if getattr(self, "search_align", False):
            al.search(evA, evB, by_site=getattr(self, 'search_by_site', True))          # rows are permuted between the runs: partner by function, creation site and variables
        else:
            al.lockstep(evA, evB)
        self.align_facts.extend(al.facts[n0:])
        self.stats["aligned"] += al.aligned
        self.stats["unmatched"] += len(al.unmatched)
        self.stats["align_queries"] += al.queries
        self.unmatched.extend(al.unmatched[:12])

    @property
    def defs_raw(self):
        return _DefList(self)

    # ---- driver ---------------------------------------------------------------------------------------------
    def run(self, make_scene_A, make_scene_B, pipeline, cuts=CUTS):
        """make_scene_X() -> Scene ready for the pipeline; pipeline(sc) -> dict of outputs.  Returns (outA, outB)."""
        c = ctx()
        self.mode = "A"
        scA = make_scene_A()
        self.startA = len(c.events)
        cutter = Cut(scA, {a: self.handler(scA, cuts) for a in cuts})
        try:
            outA = pipeline(scA)
        finally:
            cutter.remove()
        self.endA = len(c.events)
        self.mode = "B"
        scB = make_scene_B()
        self.startB = len(c.events)
        cutter = Cut(scB, {a: self.handler(scB, cuts) for a in cuts})
        try:
            outB = pipeline(scB)
        finally:
            cutter.remove()
        # align what was requested after the last cut (result bookkeeping)
        a0 = self.marksA[-1][1] if self.marksA else self.startA
        b0 = self.marksB[-1][1] if self.marksB else self.startB
        self._align(c, c.events[a0:self.endA], c.events[b0:len(c.events)])
        if len(self.marksA) != len(self.marksB):
            self.obligs.append(Obligation("%s: same number of cut points in both runs" % self.T.name, [], z3.BoolVal(False)))
        return outA, outB, scA, scB

    def result_obligation(self, label, lhs, rhs):
        goal = zexpr(SR(lhs)) == zexpr(SR(rhs))
        return Obligation(label, self._facts_for(ctx(), goal), goal)


class _DefList(list):
    """adapter: name_array(record=...) appends (symbol, definition) pairs; keep them as z3 equalities on the twin"""
    def __init__(self, tw):
        super().__init__()
        self.tw = tw

    def append(self, pair):
        s_, d = pair
        self.tw.defs.append(s_ == d)
