"""C13 -- multi-aircraft scenes: order independence, isolation (decoupling), add/remove identity, selection.

Hperm    twin run of the whole numeric pipeline (assembly, flow properties, residual for arbitrary circulation, load integration)
         on scenes holding the same aircraft added in different orders, all poses / velocities / rates symbolic: every per-aircraft
         block of every array, the residual and every result of each aircraft are equal up to the block permutation.
Hdec     with the cross-aircraft blocks of the influence tensor set to exact zero (cut at `_V_ji`), the rows of each aircraft equal
         those of the scene holding that aircraft alone: nothing but the induced velocity couples the aircraft (own attitude, own
         reference quantities, atmosphere at own origin).  This is the algebraic content of the isolation clause.
Haddrem  Scene(A); add(B); remove(B) leaves exactly the stored state of Scene(A)  (and the C07 step for both operations).
Hsel     `_get_aircraft` and the analyses restricted to named aircraft report exactly those.
"""
import itertools

import numpy as np
import z3

from symx import facade, smt
from symx.explore import explore
from symx.harness import Check, Finding, run_parallel
from symx.smt import Obligation
from symx.values import SR, sym, zexpr, ctx, simp, exact, Ctx
from symx.rel import cone_defs, Cut
from symx.facade import wrap

from checks.families import family_G, UFAirfoil, use_airfoil
from checks import kernel as K
from checks import analysis as AN
from checks import refmodels as RM

MEMBERS = {"a": "m1", "b": "m2", "c": "m1"}
NSEC = 2


def sym_state(name):
    return {"q": [sym("%s_q%d" % (name, i)) for i in range(4)], "p": [sym("%s_p%d" % (name, i)) for i in range(3)],
            "vb": [sym("%s_v%d" % (name, i)) for i in range(3)], "w": [sym("%s_w%d" % (name, i)) for i in range(3)]}


def build(order, states, solver=None, N=2):
    import machupX as MX
    from machupX.helpers import quat_inv_trans
    use_airfoil(UFAirfoil)
    try:
        sc = MX.Scene({"units": "English", "solver": dict(solver or {}), "scene": {"atmosphere": {"rho": 0.0023769, "V_wind": [sym("W0"), sym("W1"), sym("W2")]}}})
        for nm in order:
            sc.add_aircraft(nm, family_G(MEMBERS[nm], N=N), state={"velocity": [100.0, 0.0, 5.0]})
    finally:
        use_airfoil(None)
    sc._impingement_threshold = -np.inf
    # position-dependent atmosphere: density, viscosity and speed of sound are uninterpreted functions of the Earth-fixed position, so that
    # "each aircraft sees its own local atmosphere" is visible (a value sampled at another aircraft's position is a different symbol)
    def field(tag):
        def get(pos):
            c = ctx()
            a = np.asarray(pos, dtype=object)
            if a.ndim == 1:
                return SR(c.atom("atm_" + tag, [simp(zexpr(SR(x))) for x in a]))
            out = np.empty(a.shape[0], dtype=object)
            for i in range(a.shape[0]):
                out[i] = SR(c.atom("atm_" + tag, [simp(zexpr(SR(x))) for x in a[i]]))
            return wrap(out)
        return get
    sc._get_density, sc._get_viscosity, sc._get_sos = field("rho"), field("nu"), field("a")
    for nm in order:
        ap, st = sc._airplanes[nm], states[nm]
        ap.q = wrap(np.array(st["q"], dtype=object))
        ap.p_bar = wrap(np.array(st["p"], dtype=object))
        ap.v = quat_inv_trans(ap.q, wrap(np.array(st["vb"], dtype=object)))
        ap.w = wrap(np.array(st["w"], dtype=object))
        ap.S_w, ap.l_ref_lon, ap.l_ref_lat = sym("%s_Sw" % nm), sym("%s_lon" % nm), sym("%s_lat" % nm)
    return sc


def pipeline(sc, gam_by_name, cut_vji=None):
    sc._perform_geometry_and_atmos_calcs()
    cutter = Cut(sc, {"_V_ji": cut_vji}) if cut_vji else None
    try:
        sc._calc_invariant_flow_properties()
    finally:
        if cutter:
            cutter.remove()
    gam = np.empty(sc._N, dtype=object)
    for ap, sl in zip(sc._airplane_objects, sc._airplane_slices):
        gam[sl] = gam_by_name[ap.name]
    R = sc._lifting_line_residual(wrap(gam))
    sc._FM = {}
    sc._integrate_forces_and_moments(body_frame=True, stab_frame=True, wind_frame=True, report_by_segment=True)
    out = {"R": {}, "FM": K.flatten_fm(sc._FM), "arrays": {}}
    for ap, sl in zip(sc._airplane_objects, sc._airplane_slices):
        out["R"][ap.name] = list(R[sl])
        for nm in ("_PC", "_r_CG", "_dl", "_u_n", "_v_inf", "_alpha_inf"):
            out["arrays"]["%s/%s" % (ap.name, nm)] = [x for x in np.asarray(getattr(sc, nm)[sl], dtype=object).reshape(-1)]
    return out


def run_perm(names, order2):
    from checks import twin as TW
    c = ctx()
    c.where_assume_true = True
    states = {nm: sym_state(nm) for nm in names}
    for nm in names:
        c.declare_unit(states[nm]["q"])
    gam = {nm: wrap(np.array([sym("gam_%s_%d" % (nm, i)) for i in range(NSEC)], dtype=object)) for nm in names}
    # row i of run B (order2) corresponds to row index(i) of run A (names): block permutation
    startA, startB = {}, {}
    k = 0
    for nm in names:
        startA[nm] = k; k += NSEC
    k = 0
    for nm in order2:
        startB[nm] = k; k += NSEC
    rowmap = {}
    for nm in order2:
        for i in range(NSEC):
            rowmap[startB[nm] + i] = startA[nm] + i
    T = TW.Transform(index=lambda i: rowmap[i], name="aircraft order")
    tw = TW.Twin(T, align=False)
    outA, outB, scA, scB = tw.run(lambda: build(list(names), states), lambda: build(list(order2), states), lambda sc: pipeline(sc, gam))
    return {"A": outA, "B": outB, "tw": tw}


def harness_perm(ck, names, order2):
    label = "order %s vs %s" % ("".join(names), "".join(order2))
    res = explore(lambda: run_perm(names, order2), max_paths=2)
    ck.add_paths(res)
    for p in res:
        if not p.ok:
            ck.inconc("%s: %s %r %s" % (label, p.kind, p.exc, (p.tb or "")[-500:]))
            continue
        A, B = p.value["A"], p.value["B"]
        tw = p.value["tw"]
        base = list(p.ctx.assumptions) + list(p.ctx.pc) + list(tw.defs)
        mk = lambda ob: Finding("order", {"names": list(names), "order2": list(order2), "what": ob.label}, ob.label, ob.model)
        for ob in tw.obligs:
            ob.label = label + " " + ob.label
            ob.meta["finding"] = mk
        ck.add(tw.obligs)

        def eq_ob(lab, xs, ys):
            if len(xs) != len(ys):
                return Obligation(lab, [], z3.BoolVal(False), meta={"finding": mk})
            g = z3.And(*[zexpr(SR(x)) == zexpr(SR(y)) for x, y in zip(xs, ys)])
            return Obligation(lab, base + cone_defs(p.ctx, [g]), g, meta={"finding": mk})
        obs = [Obligation(label + " result key set", [], z3.BoolVal(set(A["FM"]) == set(B["FM"])), meta={"finding": mk})]
        for k in sorted(A["arrays"]):
            xs, ys = A["arrays"][k], B["arrays"].get(k, [])
            for i in range(0, len(xs), 6):
                obs.append(eq_ob("%s array %s[%d..]" % (label, k, i), xs[i:i + 6], ys[i:i + 6]))
        for nm in names:
            for i, (x, y) in enumerate(zip(A["R"][nm], B["R"][nm])):
                obs.append(eq_ob("%s residual %s[%d]" % (label, nm, i), [x], [y]))
        for k in sorted(set(A["FM"]) & set(B["FM"])):
            obs.append(eq_ob("%s %s" % (label, k), [A["FM"][k]], [B["FM"][k]]))
        k0 = sorted(A["FM"])[len(A["FM"]) // 2]
        light = [a_ for a_ in p.ctx.assumptions if len(str(a_)) < 400] + list(p.ctx.pc)
        obs.append(Obligation(label + " canary", light, zexpr(SR(A["FM"][k0])) == zexpr(SR(B["FM"][k0])) + 1, canary=True))
        obs.append(Obligation(label + " reach", light, z3.BoolVal(True), witness=True))
        ck.add(obs)
        ck.sample({"case": label, "result_keys": len(A["FM"]), "atoms": len(p.ctx.atoms)})


def run_dec(solver):
    c = ctx()
    c.where_assume_true = True
    names = ("a", "b")
    states = {nm: sym_state(nm) for nm in names}
    for nm in names:
        c.declare_unit(states[nm]["q"])
    gam = {nm: wrap(np.array([sym("gam_%s_%d" % (nm, i)) for i in range(NSEC)], dtype=object)) for nm in names}
    sc2 = build(["a", "b"], states, solver)

    def zero_cross(attr, value):
        v = np.asarray(value, dtype=object).copy()
        for sl in sc2._airplane_slices:
            other = [i for i in range(sc2._N) if not (sl.start <= i < sl.stop)]
            for i in range(sl.start, sl.stop):
                for j in other:
                    for k in range(3):
                        v[i, j, k] = exact(0)
        return v.view(facade.SA)
    both = pipeline(sc2, gam, cut_vji=zero_cross)
    alone = {nm: pipeline(build([nm], states, solver), gam) for nm in names}
    return {"both": both, "alone": alone}


def harness_dec(ck, solver, label):
    res = explore(lambda: run_dec(solver), max_paths=2)
    ck.add_paths(res)
    for p in res:
        if not p.ok:
            ck.inconc("%s: %s %r %s" % (label, p.kind, p.exc, (p.tb or "")[-500:]))
            continue
        both, alone = p.value["both"], p.value["alone"]
        base = list(p.ctx.assumptions) + list(p.ctx.pc)
        mk = lambda ob: Finding("decouple", {"solver": solver, "what": ob.label}, ob.label, ob.model)
        obs = []
        for nm in ("a", "b"):
            for i, (x, y) in enumerate(zip(both["R"][nm], alone[nm]["R"][nm])):
                g = zexpr(SR(x)) == zexpr(SR(y))
                obs.append(Obligation("%s residual %s[%d] == alone" % (label, nm, i), base + cone_defs(p.ctx, [g]), g, meta={"finding": mk}))
            for k in sorted(alone[nm]["FM"]):
                if k not in both["FM"]:
                    obs.append(Obligation("%s key %s present" % (label, k), [], z3.BoolVal(False), meta={"finding": mk}))
                    continue
                g = zexpr(SR(both["FM"][k])) == zexpr(SR(alone[nm]["FM"][k]))
                obs.append(Obligation("%s %s == alone" % (label, k), base + cone_defs(p.ctx, [g]), g, meta={"finding": mk}))
        k0 = sorted(alone["a"]["FM"])[3]
        light = [a_ for a_ in p.ctx.assumptions if len(str(a_)) < 400] + list(p.ctx.pc)
        obs.append(Obligation(label + " canary", light, zexpr(SR(both["FM"][k0])) == zexpr(SR(alone["a"]["FM"][k0])) + 1, canary=True))
        ck.add(obs)


def run_addrem():
    AN.new_world()
    w = AN.Env.world
    c = ctx()
    states = {nm: sym_state(nm) for nm in ("a", "b")}
    for nm in states:
        c.declare_unit(states[nm]["q"])

    def st(nm):
        s_ = states[nm]
        return {"position": s_["p"], "orientation": s_["q"], "velocity": s_["vb"], "angular_rates": s_["w"]}
    import machupX as MX
    scene_in = {"units": "English", "scene": {"atmosphere": {"rho": 0.0023769, "V_wind": [sym("W0"), sym("W1"), sym("W2")]}}}
    sc1 = MX.Scene(scene_in)
    sc1.add_aircraft("a", family_G("m1"), state=st("a"))
    sc1.add_aircraft("b", family_G("m2"), state=st("b"))
    exc = None
    try:
        sc1.remove_aircraft("b")
    except Exception as e:
        exc = e
    sc0 = MX.Scene(scene_in)
    sc0.add_aircraft("a", family_G("m1"), state=st("a"))
    out = {"exc": exc}
    if exc is None:
        out["s1"], out["s0"] = w.scene_state(sc1), w.scene_state(sc0)
        out["N"] = (sc1._N, sc0._N, sc1._num_aircraft, list(sc1._airplanes.keys()))
    # removing an unknown aircraft must raise
    try:
        sc0.remove_aircraft("nobody")
        out["unknown"] = "returned"
    except Exception as e:
        out["unknown"] = type(e).__name__
    return out


def harness_addrem(ck):
    res = explore(run_addrem, max_paths=4)
    ck.add_paths(res)
    for p in res:
        if not p.ok:
            ck.inconc("add/remove: %s %r %s" % (p.kind, p.exc, (p.tb or "")[-400:]))
            continue
        v = p.value
        mk = lambda ob: Finding("addrem", {}, ob.label, ob.model)
        if v["exc"] is not None:
            ck.add([Obligation("add/remove: remove_aircraft raises %s" % type(v["exc"]).__name__, [], z3.BoolVal(False), meta={"finding": mk})])
            continue
        base = list(p.ctx.assumptions) + list(p.ctx.pc)
        ok_struct = v["N"][0] == v["N"][1] and v["N"][2] == 1 and v["N"][3] == ["a"] and len(v["s1"]) == len(v["s0"])
        diff = [(a, b) for a, b in zip(v["s1"], v["s0"]) if a.get_id() != b.get_id()] if ok_struct else []
        g = z3.And(*[a == b for a, b in diff]) if diff else z3.BoolVal(ok_struct)
        ck.add([Obligation("add/remove: Scene(A)+B-B stores exactly the state of Scene(A) (%d components)" % len(v["s1"]), base + cone_defs(p.ctx, [g]), g, meta={"finding": mk}),
                Obligation("add/remove: removing an unknown aircraft raises", [], z3.BoolVal(v["unknown"] in ("RuntimeError", "KeyError", "IOError", "OSError")), meta={"finding": mk}),
                Obligation("add/remove canary", base, v["s1"][0] == v["s0"][0] + 1, canary=True)])


def run_sel():
    AN.new_world()
    c = ctx()
    spec = {"scene": {"units": "English", "scene": {"atmosphere": {"rho": 0.0023769}}},
            "aircraft": {"a": {"input": family_G("g5"), "state": {"velocity": [sym("u"), sym("v"), sym("w")], "position": [0.0, 0.0, 0.0]}, "controls": {}},
                         "b": {"input": family_G("g1"), "state": {"velocity": [95.0, 1.0, 6.0], "position": [30.0, 20.0, -5.0]}, "controls": {}}}}
    sc = RM.Lab(spec, True).fresh()
    out = {}
    out["get"] = {"None": sc._get_aircraft(), "str": sc._get_aircraft(aircraft="b"), "list": sc._get_aircraft(aircraft=["b", "a"])}
    for bad in (3, ("a",), {"a": 1}):
        try:
            sc._get_aircraft(aircraft=bad)
            out["get"]["bad:%s" % type(bad).__name__] = "returned"
        except Exception as e:
            out["get"]["bad:%s" % type(bad).__name__] = type(e).__name__
    for meth in ("stability_derivatives", "damping_derivatives", "control_derivatives", "state_derivatives", "derivatives", "aero_center", "MAC"):
        out[meth] = {"str": sorted(getattr(sc, meth)(aircraft="b").keys()), "list": sorted(getattr(sc, meth)(aircraft=["a"]).keys()), "None": sorted(getattr(sc, meth)().keys())}
    return out


def harness_sel(ck):
    res = explore(run_sel, max_paths=4)
    ck.add_paths(res)
    for p in res:
        if not p.ok:
            ck.inconc("selection: %s %r %s" % (p.kind, p.exc, (p.tb or "")[-400:]))
            continue
        v = p.value
        mk = lambda ob: Finding("selection", {"what": ob.label}, ob.label, ob.model)
        g = v["get"]
        ok = g["None"] == ["a", "b"] and g["str"] == ["b"] and g["list"] == ["b", "a"] and all(g[k] in ("IOError", "OSError") for k in g if k.startswith("bad:"))
        obs = [Obligation("selection: _get_aircraft(None|str|list|other) -> all|[name]|list|IOError: %s" % g, [], z3.BoolVal(ok), meta={"finding": mk})]
        for meth in v:
            if meth == "get":
                continue
            r = v[meth]
            obs.append(Obligation("selection: %s reports exactly the requested aircraft %s" % (meth, r), [], z3.BoolVal(r["str"] == ["b"] and r["list"] == ["a"] and r["None"] == ["a", "b"]), meta={"finding": mk}))
        ck.add(obs)


# ---- replay -------------------------------------------------------------------------------------------------------
def _concrete_scene(order, solver=None, seed=0):
    import machupX as MX
    rng = np.random.RandomState(seed)
    states = {}
    for i, nm in enumerate(("a", "b", "c")):
        q = rng.normal(size=4); q /= np.linalg.norm(q)
        states[nm] = {"position": [40.0 * i, 15.0 * i - 10.0, -1000.0 - 30.0 * i], "orientation": [5.0 + 7 * i, 3.0 - 2 * i, 10.0 * i], "velocity": [100.0 - 3 * i, 2.0 * i, 6.0 + i], "angular_rates": [0.02 * i, 0.01, -0.01 * i]}
    sc = MX.Scene({"units": "English", "solver": dict(solver or {}), "scene": {"atmosphere": {"rho": "standard", "V_wind": [4.0, -3.0, 1.0]}}})
    for nm in order:
        sc.add_aircraft(nm, family_G(MEMBERS[nm], N=3), state=states[nm])
    return sc


def replay_order(inp):
    bad = []
    with AN.real_classes():
        fa = K.flatten_fm(_concrete_scene(inp["names"]).solve_forces(stab_frame=True, report_by_segment=True))
        fb = K.flatten_fm(_concrete_scene(inp["order2"]).solve_forces(stab_frame=True, report_by_segment=True))
    if set(fa) != set(fb):
        bad.append(("keys", sorted(set(fa) ^ set(fb))[:4]))
    for k in set(fa) & set(fb):
        if abs(fa[k] - fb[k]) > 1e-7 * max(abs(fa[k]), abs(fb[k]), 1e-3):
            bad.append((k, fa[k], fb[k]))
    return {"reproduced": bool(bad), "key": "insertion order changes results", "observed": bad[:6], "what": "aircraft added as %s vs %s: %s" % (inp["names"], inp["order2"], bad[:3])}


def replay_decouple(inp):
    """two aircraft 1e7 ft apart vs each alone (the concrete shadow of the decoupling lemma)"""
    import machupX as MX
    bad = []
    with AN.real_classes():
        st = {"a": {"position": [0.0, 0.0, -1000.0], "orientation": [4.0, 6.0, 20.0], "velocity": [100.0, 3.0, 6.0]}, "b": {"position": [1.0e7, 2.0e7, -1000.0], "orientation": [-3.0, 2.0, 70.0], "velocity": [90.0, -2.0, 8.0]}}
        sc = MX.Scene({"units": "English", "solver": dict(inp.get("solver") or {}), "scene": {"atmosphere": {"rho": 0.0023769}}})
        for nm in ("a", "b"):
            sc.add_aircraft(nm, family_G(MEMBERS[nm], N=3), state=st[nm])
        both = sc.solve_forces(stab_frame=True)
        for nm in ("a", "b"):
            s1 = MX.Scene({"units": "English", "solver": dict(inp.get("solver") or {}), "scene": {"atmosphere": {"rho": 0.0023769}}})
            s1.add_aircraft(nm, family_G(MEMBERS[nm], N=3), state=st[nm])
            alone = s1.solve_forces(stab_frame=True)
            for k, x in alone[nm]["total"].items():
                y = both[nm]["total"][k]
                if abs(x - y) > 1e-6 * max(abs(x), abs(y), 1e-3):
                    bad.append((nm, k, y, x))
    return {"reproduced": bool(bad), "key": "far-apart aircraft differ from alone", "observed": bad[:6], "what": "aircraft 1e7 ft apart: %s" % (bad[:3],)}


def replay_addrem(inp):
    import machupX as MX
    bad = []
    with AN.real_classes():
        try:
            sc = _concrete_scene(["a"])
            f0 = K.flatten_fm(sc.solve_forces())
            sc2 = _concrete_scene(["a", "b"])
            sc2.solve_forces()
            sc2.remove_aircraft("b")
            f1 = K.flatten_fm(sc2.solve_forces())
            for k in f0:
                if k not in f1 or abs(f0[k] - f1[k]) > 1e-9 * max(abs(f0[k]), 1e-3):
                    bad.append((k, f0[k], f1.get(k)))
            try:
                sc2.remove_aircraft("nobody")
                bad.append(("remove unknown", "returned"))
            except (RuntimeError, KeyError, IOError):
                pass
        except Exception as e:
            bad.append(("exception", repr(e)))
    return {"reproduced": bool(bad), "key": "add/remove: " + (bad[0][0] if bad else ""), "observed": bad[:5], "what": "Scene(A); add(B); remove(B): %s" % (bad[:3],)}


def replay_selection(inp):
    bad = []
    with AN.real_classes():
        sc = _concrete_scene(["a", "b"])
        for meth in ("stability_derivatives", "derivatives", "aero_center", "MAC", "control_derivatives", "damping_derivatives"):
            try:
                r1 = sorted(getattr(sc, meth)(aircraft="b").keys()); r2 = sorted(getattr(sc, meth)(aircraft=["a"]).keys())
                if r1 != ["b"] or r2 != ["a"]:
                    bad.append((meth, r1, r2))
            except Exception as e:
                bad.append((meth, repr(e)))
        for b_ in (3, ("a",)):
            try:
                sc._get_aircraft(aircraft=b_); bad.append(("_get_aircraft", repr(b_), "returned"))
            except IOError:
                pass
            except Exception as e:
                bad.append(("_get_aircraft", repr(b_), repr(e)))
    return {"reproduced": bool(bad), "key": "selection: " + ",".join(sorted(set(b[0] for b in bad))), "observed": bad[:5], "what": "analyses restricted to named aircraft: %s" % (bad[:3],)}


REPLAYS = {"order": replay_order, "decouple": replay_decouple, "addrem": replay_addrem, "selection": replay_selection}


def main(tier, seed, only=None):
    ck = Check("C13", tier, seed, REPLAYS)
    ck.portfolio = (("/usr/bin/z3", 1.0), ("z3api", 1.0), ("cvc5", 1.0))
    facade.install()
    AN.patch_classes()
    import machupX.scene as SC
    ck.encoded(SC.Scene.add_aircraft, SC.Scene.remove_aircraft, SC.Scene._initialize_storage_arrays, SC.Scene._store_aircraft_properties, SC.Scene._perform_geometry_and_atmos_calcs,
               SC.Scene._calc_invariant_flow_properties, SC.Scene._lifting_line_residual, SC.Scene._integrate_forces_and_moments, SC.Scene._get_aircraft)
    ck.stub("airfoil evaluations uninterpreted", "circulation arbitrary symbolic (per aircraft)", "Hsel / Haddrem: LLsolve and AeroADT as in C07-C09")
    ck.assume("the no-impingement assumptions are nonlinear in the atoms; their joint satisfiability is witnessed by the concrete replay scenes, not by the solver",
              "unit attitude quaternions", "no trailing vortex impinges on a control point (denominators > 1e-13 assumed)", "uniform atmosphere with symbolic wind for Hperm/Hdec")
    ck.out_of_claim("the far-field *limit* (loads -> alone as separation -> infinity): an asymptotic bound on Biot-Savart sums; only its algebraic core (Hdec) is decided; the replay checks 1e7 ft concretely")
    tasks = []
    if not only or "perm" in only:
        tasks.append(("perm ab/ba", lambda c: harness_perm(c, ("a", "b"), ("b", "a"))))
        if tier == "thorough":
            tasks.append(("perm abc/cab", lambda c: harness_perm(c, ("a", "b", "c"), ("c", "a", "b"))))
            tasks.append(("perm abc/bca", lambda c: harness_perm(c, ("a", "b", "c"), ("b", "c", "a"))))
    if not only or "dec" in only:
        tasks.append(("dec default", lambda c: harness_dec(c, {}, "decoupling (default options)")))
        if tier == "thorough":
            tasks.append(("dec options off", lambda c: harness_dec(c, dict(use_swept_sections=False, use_total_velocity=False, use_in_plane=False), "decoupling (options off)")))
    if not only or "addrem" in only:
        tasks.append(("addrem", harness_addrem))
    if not only or "sel" in only:
        tasks.append(("sel", harness_sel))
    run_parallel(ck, tasks)
    ck.bound(aircraft="<= 3 one-segment aircraft (right wing, left wing, right wing), N = 2 sections each", orders="2 (quick) / 4 (thorough) insertion orders", state="all poses, velocities, rates, wind, reference quantities, circulation symbolic")
    ck.rung("Hperm, Hdec, Haddrem, Hsel")
    return ck.finish()
