"""Bounded scene / aircraft families (DESIGN section 4) and contract stubs shared by the checks."""
import copy

import numpy as np
import z3

from symx import facade
from symx.values import SR, SB, sym, ctx, zexpr, simp, exact

AIRFOILS = {
    "a1": {"type": "linear", "aL0": -0.03, "CLa": 6.2, "CmL0": -0.05, "Cma": 0.01, "CD0": 0.006, "CD1": -0.004, "CD2": 0.01},
    "a2": {"type": "linear", "aL0": 0.0, "CLa": 6.0, "CmL0": 0.0, "Cma": 0.0, "CD0": 0.005, "CD1": 0.0, "CD2": 0.008},
}


def unit_quat(prefix="q"):
    """4 symbolic reals; the caller assumes |q|^2 == 1"""
    return [sym("%s%d" % (prefix, i)) for i in range(4)]


def unit_quat_assumption(prefix="q"):
    qs = [z3.Real("%s%d" % (prefix, i)) for i in range(4)]
    return sum(x * x for x in qs) == 1


def simple_airplane(N=2, reid=False, sweep=0.0, dihedral=0.0, controls=False, cg=(0.0, 0.0, 0.0)):
    d = {
        "CG": list(cg), "weight": 50.0,
        "reference": {"area": 8.0, "longitudinal_length": 1.0, "lateral_length": 8.0},
        "airfoils": copy.deepcopy(AIRFOILS),
        "wings": {
            "main": {"ID": 1, "side": "both", "is_main": True, "semispan": 4.0, "chord": [[0.0, 1.0], [1.0, 0.75]],
                     "sweep": sweep, "dihedral": dihedral, "twist": [[0.0, 1.0], [1.0, -1.0]], "airfoil": "a1",
                     "grid": {"N": N, "reid_corrections": reid}},
        },
    }
    if controls:
        d["controls"] = {"aileron": {"is_symmetric": False}, "elevator": {"is_symmetric": True}}
        d["wings"]["main"]["control_surface"] = {"root_span": 0.4, "tip_span": 0.9, "chord_fraction": 0.25,
                                                 "control_mixing": {"aileron": 1.0}}
        d["wings"]["tail"] = {"ID": 2, "side": "both", "is_main": False, "connect_to": {"ID": 1, "location": "root", "dx": -5.0},
                              "semispan": 1.5, "chord": 0.6, "airfoil": "a2", "grid": {"N": N, "reid_corrections": reid},
                              "control_surface": {"root_span": 0.0, "tip_span": 1.0, "chord_fraction": 0.3,
                                                  "control_mixing": {"elevator": 1.0}}}
    return d


def family_G(name, N=2):
    """aircraft family for assembly-level runs (concrete geometry, symbolic state)"""
    if name == "g1":
        return simple_airplane(N=N, reid=False, sweep=10.0, dihedral=5.0, cg=(-0.2, 0.0, 0.05))
    if name == "g2":
        d = simple_airplane(N=N, reid=True, sweep=15.0, dihedral=4.0, cg=(-0.3, 0.0, 0.02))
        d["wings"]["fin"] = {"ID": 2, "side": "right", "is_main": False, "connect_to": {"ID": 1, "location": "root", "dx": -4.0},
                             "semispan": 1.2, "dihedral": 90.0, "sweep": 20.0, "chord": [[0.0, 0.8], [1.0, 0.5]], "airfoil": "a2",
                             "grid": {"N": N + 1, "reid_corrections": True}}
        return d
    if name == "g3":
        d = simple_airplane(N=N, reid=False, cg=(-0.1, 0.1, 0.0))
        d["wings"]["main"]["side"] = "left"
        d["wings"]["stab"] = {"ID": 2, "side": "right", "is_main": False, "connect_to": {"ID": 1, "location": "root", "dx": -3.0, "y_offset": 0.3},
                              "semispan": 1.5, "chord": 0.5, "airfoil": "a2", "grid": {"N": N, "reid_corrections": False}}
        return d
    if name == "g4":
        d = simple_airplane(N=N, reid=False, sweep=5.0, cg=(-0.2, 0.0, 0.0))
        d["wings"]["outer"] = {"ID": 2, "side": "both", "is_main": True, "connect_to": {"ID": 1, "location": "tip"},
                               "semispan": 1.5, "chord": [[0.0, 0.75], [1.0, 0.4]], "sweep": 20.0, "dihedral": 10.0, "airfoil": "a1",
                               "grid": {"N": N, "reid_corrections": False}}
        d["wings"]["winglet"] = {"ID": 3, "side": "both", "is_main": False, "connect_to": {"ID": 2, "location": "tip"},
                                 "semispan": 0.4, "chord": 0.4, "dihedral": 90.0, "airfoil": "a2", "grid": {"N": N, "reid_corrections": False}}
        return d
    if name == "g5":
        return simple_airplane(N=N, reid=False, sweep=8.0, controls=True, cg=(-0.3, 0.0, 0.0))
    if name in ("m1", "m2"):
        # minimal one-sided aircraft (one segment) for scenes with several aircraft
        d = simple_airplane(N=N, reid=False, sweep=12.0 if name == "m1" else -6.0, dihedral=3.0 if name == "m1" else 8.0, cg=(-0.15, 0.05, 0.02) if name == "m1" else (0.1, -0.1, 0.0))
        d["wings"]["main"]["side"] = "right" if name == "m1" else "left"
        d["wings"]["main"]["airfoil"] = "a1" if name == "m1" else "a2"
        return d
    raise KeyError(name)


# ---- airfoil stand-ins ---------------------------------------------------------------------------------
class LinearAirfoil:
    """Stand-in for airfoil_db.Airfoil (type 'linear', no CL_max saturation): the documented linear section model,
    written so that symbolic arguments pass through (airfoil_db itself is a dependency outside /repo)."""
    THETA_BREAK = 0.19198621771937624

    def __init__(self, name, d, **kw):
        self.name = name
        self._input = d
        self._type = d.get("type", "linear")
        self._aL0 = d.get("aL0", 0.0)
        self._CLa = d.get("CLa", 2 * np.pi)
        self._Cma = d.get("Cma", 0.0)
        self._CD0 = d.get("CD0", 0.0)
        self._CD1 = d.get("CD1", 0.0)
        self._CD2 = d.get("CD2", 0.0)
        self._CmL0 = d.get("CmL0", 0.0)
        self._CL_max = d.get("CL_max", np.inf)

    def set_err_state(self, **kw):
        pass

    def get_max_camber(self):
        return 0.02

    def get_max_thickness(self):
        return 0.12

    @staticmethod
    def _noflap(d_f, c_f):
        def allzero(x):
            a = np.asarray(x, dtype=object).reshape(-1)
            return all((isinstance(v, SR) and v.c is not None and v.c == 0.0) or (not isinstance(v, SR) and v == 0.0) for v in a)
        return allzero(d_f) or allzero(c_f)

    def _flap(self, c_f, d_f):
        NP = facade.NP
        theta_f = NP.arccos(2.0 * c_f - 1.0)
        eps = 1.0 - (theta_f - NP.sin(theta_f)) / np.pi
        hinge = 3.9598 * NP.arctan((c_f + 0.006527) * 89.2574 + 4.898015) - 5.18786
        eff = NP.where(NP.abs(d_f) > self.THETA_BREAK, -0.4995016675499485 * NP.abs(d_f) + 1.09589743589744, 1.0)
        return hinge * eff * eps * d_f

    def get_CL(self, alpha=0.0, Rey=None, Mach=None, trailing_flap_deflection=0.0, trailing_flap_fraction=0.0, **kw):
        if self._noflap(trailing_flap_deflection, trailing_flap_fraction):
            return self._CLa * (alpha - self._aL0)
        return self._CLa * (alpha - self._aL0 + self._flap(trailing_flap_fraction, trailing_flap_deflection))

    def get_CD(self, alpha=0.0, Rey=None, Mach=None, trailing_flap_deflection=0.0, trailing_flap_fraction=0.0, **kw):
        CL = self.get_CL(alpha=alpha, trailing_flap_fraction=trailing_flap_fraction)   # airfoil_db pops the deflection before calling get_CL
        CD_flap = 0.002 * facade.NP.abs(facade.NP.degrees(facade.wrap(np.asarray(trailing_flap_deflection, dtype=object))))
        return self._CD0 + self._CD1 * CL + self._CD2 * CL * CL + CD_flap

    def get_Cm(self, alpha=0.0, Rey=None, Mach=None, trailing_flap_deflection=0.0, trailing_flap_fraction=0.0, **kw):
        if self._noflap(trailing_flap_deflection, trailing_flap_fraction):
            return self._CmL0 + self._Cma * (alpha - self._aL0)
        NP = facade.NP
        theta_f = NP.arccos(2.0 * trailing_flap_fraction - 1.0)
        Cm_df = 0.25 * (NP.sin(2.0 * theta_f) - 2.0 * NP.sin(theta_f))
        return self._CmL0 + self._Cma * (alpha - self._aL0) + Cm_df * trailing_flap_deflection

    def get_aL0(self, alpha=0.0, Rey=None, Mach=None, trailing_flap_deflection=0.0, trailing_flap_fraction=0.0, **kw):
        if self._noflap(trailing_flap_deflection, trailing_flap_fraction):
            return self._aL0
        return self._aL0 - self._flap(trailing_flap_fraction, trailing_flap_deflection)

    def get_CLa(self, alpha=0.0, **kw):
        return self._CLa

    def get_CLM(self, **kw):
        return 0.0

    def get_CLRe(self, **kw):
        return 0.0


class UFAirfoil(LinearAirfoil):
    """Airfoil whose coefficients are *uninterpreted functions* of (airfoil, coefficient, alpha, Re, M, delta_f, c_f)
    per evaluation point: equal arguments give the same symbol; nothing else is assumed."""
    def _uf(self, coef, alpha, Rey, Mach, d_f, c_f):
        def arr(x, n):
            a = np.asarray(x, dtype=object).reshape(-1)
            if a.size == 1 and n > 1:
                a = np.repeat(a, n)
            return a
        if any(isinstance(x, np.ndarray) and x.size == 0 for x in (alpha, Rey, Mach, d_f, c_f)):
            return facade._obj((0,), 0.0)
        n = max(np.size(alpha), np.size(Rey) if Rey is not None else 1, np.size(Mach) if Mach is not None else 1, np.size(d_f), np.size(c_f))
        al, re, ma, df, cf = (arr(x if x is not None else 0.0, n) for x in (alpha, Rey, Mach, d_f, c_f))
        out = facade._obj((n,), 0.0)
        c = ctx()
        for i in range(n):
            args = [simp(zexpr(SR(v))) for v in (al[i], re[i], ma[i], df[i], cf[i])]
            out[i] = SR(c.atom("af_%s_%s" % (self.name, coef), args))
        if np.ndim(alpha) == 0 and n == 1:
            return out[0]
        return out

    def get_CL(self, alpha=0.0, Rey=None, Mach=None, trailing_flap_deflection=0.0, trailing_flap_fraction=0.0, **kw):
        return self._uf("CL", alpha, Rey, Mach, trailing_flap_deflection, trailing_flap_fraction)

    def get_CD(self, alpha=0.0, Rey=None, Mach=None, trailing_flap_deflection=0.0, trailing_flap_fraction=0.0, **kw):
        return self._uf("CD", alpha, Rey, Mach, trailing_flap_deflection, trailing_flap_fraction)

    def get_Cm(self, alpha=0.0, Rey=None, Mach=None, trailing_flap_deflection=0.0, trailing_flap_fraction=0.0, **kw):
        return self._uf("Cm", alpha, Rey, Mach, trailing_flap_deflection, trailing_flap_fraction)

    def get_aL0(self, alpha=0.0, Rey=None, Mach=None, trailing_flap_deflection=0.0, trailing_flap_fraction=0.0, **kw):
        return self._uf("aL0", 0.0, Rey, Mach, trailing_flap_deflection, trailing_flap_fraction)

    def get_CLa(self, alpha=0.0, Rey=None, Mach=None, trailing_flap_deflection=0.0, trailing_flap_fraction=0.0, **kw):
        return self._uf("CLa", alpha, Rey, Mach, trailing_flap_deflection, trailing_flap_fraction)

    def get_CLM(self, alpha=0.0, Rey=None, Mach=None, trailing_flap_deflection=0.0, trailing_flap_fraction=0.0, **kw):
        return self._uf("CLM", alpha, Rey, Mach, trailing_flap_deflection, trailing_flap_fraction)

    def get_CLRe(self, alpha=0.0, Rey=None, Mach=None, trailing_flap_deflection=0.0, trailing_flap_fraction=0.0, **kw):
        return self._uf("CLRe", alpha, Rey, Mach, trailing_flap_deflection, trailing_flap_fraction)


_saved_airfoil = {}


def use_airfoil(cls):
    """swap machupX.airplane.Airfoil (module global) for a stand-in class; None restores the real airfoil_db class"""
    import machupX.airplane as AP
    if "real" not in _saved_airfoil:
        _saved_airfoil["real"] = AP.Airfoil
    AP.Airfoil = cls if cls is not None else _saved_airfoil["real"]
