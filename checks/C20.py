"""C20 -- files, CLI runs and exports agree with the API; inputs are never mutated (partial).

H1  the real machupX.__main__._run_prescribed_analyses with Scene replaced by a recording stand-in: call order == dictionary order, default
    file name per command derived from the input file name, unknown commands skipped, parameters passed through unchanged.
H2  every analysis with filename= (LLsolve stub, symbolic state): the object handed to json.dump is the returned object (same symbolic leaves);
    distributions CSV: columns written by name equal the returned lists (concrete differential run on the real code).
H3  construction, add_aircraft and every analysis on *write-monitored* input dictionaries with symbolic leaves: no write reaches a caller-owned
    dictionary or list on any explored path; two scenes built from one dictionary do not influence each other.
    (Honesty note: on this clause the solver only decides which paths are feasible; the verdict "no write" is read off the instrumented
    symbolic run -- *monitored under symbolic execution*, not a discharged obligation.)
Out bytes of STL / VTK files, '%e' formatting of the CSV, subprocess execution of `python -m machupX`.
"""
import copy
import io
import json

import numpy as np
import z3

from symx import facade, smt
from symx.explore import explore
from symx.harness import Check, Finding, run_parallel
from symx.smt import Obligation
from symx.values import SR, sym, zexpr, ctx, simp

from checks import analysis as AN
from checks import refmodels as RM
from checks.families import family_G
from checks.C09 import make_spec, setup_ctx, NAME


# ---- H1 ----------------------------------------------------------------------------------------------------------------
class RecScene:
    log = []

    def __init__(self, arg):
        RecScene.log.append(("__init__", arg))

    def __getattr__(self, name):
        if name.startswith("__") or name in ("not_a_command", "frobnicate"):
            raise AttributeError(name)

        def call(**kw):
            RecScene.log.append((name, kw))
        return call


def run_cli(run_dict, input_filename):
    import machupX.__main__ as MM
    import builtins
    RecScene.log = []
    saved_scene, saved_print = MM.Scene, MM.__dict__.get("print")
    MM.Scene = RecScene
    MM.print = lambda *a, **k: None
    real_open = builtins.open

    def fake_open(path, *a, **k):
        if path == input_filename:
            return io.StringIO(json.dumps({"run": run_dict}))
        return real_open(path, *a, **k)
    MM.open = fake_open
    try:
        MM._run_prescribed_analyses(input_filename)
    finally:
        MM.Scene = saved_scene
        MM.__dict__.pop("print", None)
        MM.__dict__.pop("open", None)
    return list(RecScene.log)


DEFAULT_NAME = {"export_stl": lambda f: f.replace(".json", ".stl"), "export_vtk": lambda f: f.replace(".json", ".vtk"),
                "distributions": lambda f: f.replace(".json", "_distributions.csv")}


def harness_cli(ck):
    import itertools
    cmds = ["solve_forces", "derivatives", "distributions", "export_stl", "export_vtk", "pitch_trim", "aero_center", "display_wireframe", "MAC", "state_derivatives", "frobnicate", "target_CL"]
    mk = lambda ob: Finding("cli", {"what": ob.label}, ob.label)
    n = 0
    for fname in ("case.json", "dir.json/input.json", "a.b.json"):
        for order in (cmds, list(reversed(cmds)), cmds[3:] + cmds[:3]):
            for with_fn in (False, True):
                run = {}
                for i, c_ in enumerate(order):
                    params = {"verbose": False, "k%d" % i: i}
                    if with_fn and i % 2 == 0:
                        params["filename"] = "given_%d.out" % i
                    run[c_] = params
                want = [("__init__", fname)]
                for c_, params in run.items():
                    if c_ == "frobnicate":
                        continue
                    p2 = dict(params)
                    if "filename" in p2:
                        fn = p2.pop("filename")
                    elif "display" in c_:
                        fn = None
                    else:
                        fn = DEFAULT_NAME.get(c_, lambda f, c_=c_: f.replace(".json", "_" + c_ + ".json"))(fname)
                    want.append((c_, dict(p2, filename=fn)))
                got = run_cli(copy.deepcopy(run), fname)
                n += 1
                ck.add([Obligation("CLI: input %s, %d commands (%s), filenames %s: calls == documented" % (fname, len(order), order[0], "given/mixed" if with_fn else "default"), [],
                                   z3.BoolVal(got == want), meta={"finding": mk, "got": str(got)[:300], "want": str(want)[:300]})])
    ck.sample({"harness": "CLI", "runs": n, "example_call_log": str(run_cli({"solve_forces": {}, "frobnicate": {}, "distributions": {}}, "x.json"))})
    ck.note("H1 enumerates command lists (3 orders x 3 input names x 2 filename modes) concretely; file names are not symbolic (no string theory encoding was built)")


# ---- H2 ----------------------------------------------------------------------------------------------------------------
WRITERS = [
    ("derivatives", lambda sc, fn: sc.derivatives(filename=fn)),
    ("pitch_trim", lambda sc, fn: sc.pitch_trim(filename=fn, max_iterations=1, set_trim_state=False)),
    ("pitch_trim_using_orientation", lambda sc, fn: sc.pitch_trim_using_orientation(filename=fn, max_iterations=1, set_trim_state=False)),
    ("aero_center", lambda sc, fn: sc.aero_center(filename=fn)),
    ("MAC", lambda sc, fn: sc.MAC(filename=fn)),
    ("target_CL", lambda sc, fn: sc.target_CL(CL=sym("CLt"), filename=fn, max_iterations=1, set_state=False)),
]


def run_writer(fnw):
    import machupX.scene as SC
    AN.new_world()
    lab = RM.Lab(make_spec(True), symbolic=True)
    sc = lab.fresh()
    dumps, opened = [], []

    class FakeJson:
        @staticmethod
        def dump(obj, fh, **k):
            dumps.append((obj, getattr(fh, "name_", None)))

        def __getattr__(self, n):
            return getattr(json, n)

    class FH:
        def __init__(self, name):
            self.name_ = name

        def __enter__(self):
            return self

        def __exit__(self, *a):
            return False

    def fake_open(name, mode="r", *a, **k):
        opened.append((name, mode))
        return FH(name)
    saved_json = SC.json
    SC.json = FakeJson()
    SC.open = fake_open
    exc = None
    try:
        try:
            ret = fnw(sc, "out_file.json")
        except Exception as e:
            ret, exc = None, e
    finally:
        SC.json = saved_json
        SC.__dict__.pop("open", None)
    return {"ret": ret, "dumps": dumps, "opened": opened, "exc": exc}


def same_obj(a, b):
    """structural equality with symbolic leaves compared by term identity"""
    if isinstance(a, dict) and isinstance(b, dict):
        return set(a) == set(b) and all(same_obj(a[k], b[k]) for k in a)
    if isinstance(a, (list, tuple, np.ndarray)) and isinstance(b, (list, tuple, np.ndarray)):
        return len(a) == len(b) and all(same_obj(x, y) for x, y in zip(a, b))
    if isinstance(a, SR) or isinstance(b, SR):
        try:
            return simp(zexpr(SR(a))).get_id() == simp(zexpr(SR(b))).get_id()
        except Exception:
            return False
    return a == b


def harness_writers(ck):
    AN.patch_classes()
    for name, fnw in WRITERS:
        res = explore(lambda: run_writer(fnw), assumptions=[z3.Real("CLt") > -2, z3.Real("CLt") < 2], max_paths=12, setup=setup_ctx)
        ck.add_paths(res)
        for p in res:
            lab = "writer %s path%s" % (name, "".join("1" if d else "0" for d in p.decisions))
            if not p.ok:
                ck.inconc("%s: %s %r %s" % (lab, p.kind, p.exc, (p.tb or "")[-300:]))
                continue
            v = p.value
            mk = lambda ob, name=name: Finding("writer", {"name": name}, ob.label)
            if v["exc"] is not None:
                if type(v["exc"]).__name__ == "MaxIterationError":
                    continue
                ck.add([Obligation(lab + " raises %r" % v["exc"], [], z3.BoolVal(False), meta={"finding": mk})])
                continue
            ret = v["ret"]
            own = [d for d in v["dumps"] if d[1] == "out_file.json"]
            if name == "pitch_trim_using_orientation":
                ok = len(own) == 2 and same_obj(own[0][0], ret[0]) and same_obj(own[1][0], ret[1])
            elif name == "target_CL":
                ok = len(own) == 1 and same_obj(own[0][0].get("alpha"), ret) and same_obj(own[0][0].get("CL"), sym("CLt"))
            else:
                ok = len(own) >= 1 and same_obj(own[-1][0], ret)
            wrote_only = all(m == "w" for n_, m in v["opened"]) and set(n_ for n_, m in v["opened"]) <= {"out_file.json"}
            ck.add([Obligation(lab + " the object written to the file is the returned object; only the named file is opened for writing", list(p.ctx.assumptions) + list(p.ctx.pc),
                               z3.BoolVal(bool(ok and wrote_only)), meta={"finding": mk}),
                    Obligation(lab + " reach", list(p.ctx.assumptions) + list(p.ctx.pc), z3.BoolVal(True), witness=True)])
    ck.sample({"harness": "writers", "analyses": [n for n, _ in WRITERS]})


def harness_csv(ck):
    """distributions(filename=...) on the real code (concrete): the CSV columns equal the returned lists"""
    import os
    import tempfile
    bad = []
    with AN.real_classes():
        import machupX as MX
        sc = MX.Scene({"units": "English", "scene": {"atmosphere": {"rho": 0.0023769, "V_wind": [4.0, -2.0, 1.0]}}})
        sc.add_aircraft("a", family_G("g5", N=3), state={"velocity": [100.0, 3.0, 6.0], "orientation": [4.0, 6.0, 20.0], "angular_rates": [0.03, 0.01, -0.02]}, control_state={"aileron": 2.0, "elevator": -1.0})
        sc.add_aircraft("b", family_G("g3", N=2), state={"velocity": [95.0, 0.0, 4.0], "position": [30.0, 20.0, -5.0]})
        d = tempfile.mkdtemp(prefix="c20_")
        fn = os.path.join(d, "dist.csv")
        try:
            dist = sc.distributions(filename=fn)
            rows = [l.rstrip("\n").split(",") for l in open(fn)]
        finally:
            try:
                os.remove(fn); os.rmdir(d)
            except OSError:
                pass
        header = [h.strip() for h in rows[0]]
        body = rows[1:]
        colmap = {"span_fraction": "span_frac", "control_x": "cpx", "control_y": "cpy", "control_z": "cpz", "chord": "chord", "swept_chord": "swept_chord", "twist": "twist", "dihedral": "dihedral",
                  "sweep": "sweep", "aero_sweep": "aero_sweep", "area": "area", "alpha": "alpha", "flap_deflection": "delta_flap", "u": "u", "v": "v", "w": "w", "Re": "Re", "M": "M", "q": "q", "CL": "section_CL",
                  "Cm": "section_Cm", "parasitic_CD": "section_parasitic_CD", "alpha_L0": "section_aL0", "Fx": "Fx", "Fy": "Fy", "Fz": "Fz", "Mx": "Mx", "My": "My", "Mz": "Mz", "Circ": "circ", "CD_i": "CD_i"}
        i = 0
        for ac in dist:
            for seg in dist[ac]:
                n = len(dist[ac][seg]["cpx"])
                for k in range(n):
                    row = body[i]; i += 1
                    if row[0].strip() != ac or row[1].strip() != seg:
                        bad.append(("row label", row[:2], ac, seg))
                    for col, key in colmap.items():
                        if col not in header:
                            bad.append(("missing column", col)); continue
                        x = float(row[header.index(col)]); y = float(dist[ac][seg][key][k])
                        if abs(x - y) > 1e-10 * max(1.0, abs(y)):
                            bad.append((ac, seg, col, x, y))
        if i != len(body):
            bad.append(("row count", i, len(body)))
    ck.add([Obligation("CSV written by distributions(filename=) equals the returned distributions, column by column (concrete differential run): %s" % (bad[:2] if bad else "ok"), [],
                       z3.BoolVal(not bad), meta={"finding": lambda ob: Finding("csv", {}, ob.label)})])


# ---- H3 ----------------------------------------------------------------------------------------------------------------
WRITES = []
ORIGINALS = set()


def _log(obj, what):
    if id(obj) in ORIGINALS:
        WRITES.append((type(obj).__name__, what))


class MDict(dict):
    def __setitem__(self, k, v): _log(self, "setitem %r" % (k,)); dict.__setitem__(self, k, v)
    def __delitem__(self, k): _log(self, "delitem %r" % (k,)); dict.__delitem__(self, k)
    def pop(self, *a): _log(self, "pop %r" % (a[:1],)); return dict.pop(self, *a)
    def popitem(self): _log(self, "popitem"); return dict.popitem(self)
    def update(self, *a, **k): _log(self, "update"); dict.update(self, *a, **k)
    def setdefault(self, k, d=None):
        if k not in self:
            _log(self, "setdefault %r" % (k,))
        return dict.setdefault(self, k, d)
    def clear(self): _log(self, "clear"); dict.clear(self)


class MList(list):
    def __setitem__(self, k, v): _log(self, "setitem"); list.__setitem__(self, k, v)
    def __delitem__(self, k): _log(self, "delitem"); list.__delitem__(self, k)
    def append(self, v): _log(self, "append"); list.append(self, v)
    def extend(self, v): _log(self, "extend"); list.extend(self, v)
    def insert(self, i, v): _log(self, "insert"); list.insert(self, i, v)
    def remove(self, v): _log(self, "remove"); list.remove(self, v)
    def pop(self, *a): _log(self, "pop"); return list.pop(self, *a)
    def sort(self, *a, **k): _log(self, "sort"); list.sort(self, *a, **k)
    def reverse(self): _log(self, "reverse"); list.reverse(self)
    def clear(self): _log(self, "clear"); list.clear(self)
    def __iadd__(self, o): _log(self, "iadd"); return list.__iadd__(self, o)
    def __imul__(self, o): _log(self, "imul"); return list.__imul__(self, o)


def monitored(x):
    if isinstance(x, dict):
        d = MDict()
        for k, v in x.items():
            dict.__setitem__(d, k, monitored(v))
        ORIGINALS.add(id(d))
        return d
    if isinstance(x, list):
        l = MList()
        for v in x:
            list.append(l, monitored(v))
        ORIGINALS.add(id(l))
        return l
    return x


def plain(x):
    if isinstance(x, dict):
        return {k: plain(v) for k, v in x.items()}
    if isinstance(x, list):
        return [plain(v) for v in x]
    return x


def airplane_with_options():
    d = family_G("g5", N=2)
    d["wings"]["main"]["grid"]["cluster_points"] = [0.5]
    d["wings"]["tail"]["grid"] = d["wings"]["main"]["grid"]          # two segments sharing one grid dictionary object
    return d


ANALYSES_H3 = [("solve_forces", lambda sc: sc.solve_forces()), ("derivatives", lambda sc: sc.derivatives()),
               ("aero_center", lambda sc: sc.aero_center()), ("distributions", lambda sc: sc.distributions()), ("MAC", lambda sc: sc.MAC()),
               ("pitch_trim", lambda sc: sc.pitch_trim(max_iterations=1)), ("set_state+controls", lambda sc: (sc.set_aircraft_state(monitored({"velocity": [sym("nu"), 1.0, 4.0]})),
                                                                                                             sc.set_aircraft_control_state(monitored({"elevator": sym("nde")}))))]


def run_mut():
    import machupX as MX
    AN.new_world()
    del WRITES[:]
    ORIGINALS.clear()
    c = ctx()
    scene_in = monitored({"units": "English", "solver": {"type": "nonlinear"}, "scene": {"atmosphere": {"rho": 0.0023769, "V_wind": [sym("W0"), 1.0, 0.0]}}})
    air = monitored(airplane_with_options())
    state = monitored({"velocity": [sym("u"), sym("v"), sym("w")], "orientation": [sym("q%d" % i) for i in range(4)], "position": [0.0, 0.0, -100.0]})
    ctrl = monitored({"aileron": sym("da"), "elevator": sym("de")})
    before = (repr(plain(scene_in)), repr(plain(air)), repr(plain(state)), repr(plain(ctrl)))
    sc = MX.Scene(scene_in)
    sc.add_aircraft(NAME, air, state=state, control_state=ctrl)
    sc2 = MX.Scene(scene_in)
    sc2.add_aircraft(NAME, air, state=state, control_state=ctrl)
    geom2 = [simp(zexpr(SR(x))) for x in np.asarray(sc2._PC, dtype=object).reshape(-1)]
    errs = []
    for nm, fn in ANALYSES_H3:
        try:
            fn(sc)
        except Exception as e:
            if type(e).__name__ != "MaxIterationError":
                errs.append((nm, repr(e)))
    after = (repr(plain(scene_in)), repr(plain(air)), repr(plain(state)), repr(plain(ctrl)))
    # independence: the second scene's stored geometry / state are untouched by what happened to the first
    geom2b = [simp(zexpr(SR(x))) for x in np.asarray(sc2._PC, dtype=object).reshape(-1)]
    st2 = AN.snapshot(sc2)
    return {"writes": list(WRITES), "same_repr": before == after, "errs": errs, "indep": all(a.get_id() == b.get_id() for a, b in zip(geom2, geom2b)),
            "sc2_controls": {k: str(v) for k, v in st2[NAME]["controls"].items()}}


def harness_mut(ck):
    AN.patch_classes()
    res = explore(run_mut, max_paths=12, setup=setup_ctx)
    ck.add_paths(res)
    for p in res:
        lab = "inputs path%s" % "".join("1" if d else "0" for d in p.decisions)
        if not p.ok:
            ck.inconc("%s: %s %r %s" % (lab, p.kind, p.exc, (p.tb or "")[-400:]))
            continue
        v = p.value
        mk = lambda ob: Finding("mutation", {}, ob.label)
        facts = list(p.ctx.assumptions) + list(p.ctx.pc)
        ck.add([Obligation(lab + " no write reaches a caller-owned dictionary or list (%d writes: %s)" % (len(v["writes"]), v["writes"][:3]), facts, z3.BoolVal(not v["writes"] and v["same_repr"]), meta={"finding": mk}),
                Obligation(lab + " a second scene built from the same dictionaries is unaffected by analyses on the first", facts, z3.BoolVal(v["indep"]), meta={"finding": mk}),
                Obligation(lab + " analyses ran (%s)" % v["errs"][:2], facts, z3.BoolVal(not v["errs"]), meta={"finding": mk}),
                Obligation(lab + " reach", facts, z3.BoolVal(True), witness=True)])
    ck.sample({"harness": "write monitor", "analyses": [n for n, _ in ANALYSES_H3]})


# ---- replay -------------------------------------------------------------------------------------------------------
def replay_generic(kind):
    def rp(inp):
        bad = []
        with AN.real_classes():
            import machupX as MX
            if kind == "mutation":
                air = family_G("g5", N=3)
                air["wings"]["main"]["grid"]["cluster_points"] = [0.5]
                air["wings"]["tail"]["grid"] = air["wings"]["main"]["grid"]
                scene_in = {"units": "English", "scene": {"atmosphere": {"rho": 0.0023769}}}
                state = {"velocity": [100.0, 2.0, 5.0], "orientation": [3.0, 4.0, 5.0]}
                ctrl = {"aileron": 1.0, "elevator": -1.0}
                snap = copy.deepcopy((scene_in, air, state, ctrl))
                sc = MX.Scene(scene_in)
                sc.add_aircraft("p", air, state=state, control_state=ctrl)
                f0 = sc.solve_forces()["p"]["total"]["FL"]
                sc.derivatives(); sc.distributions(); sc.aero_center(); sc.pitch_trim(set_trim_state=False)
                if (scene_in, air, state, ctrl) != snap:
                    bad.append("caller's dictionaries were modified: %s" % ([k for k in air["wings"] if air["wings"][k] != snap[1]["wings"][k]] or "other"))
                sc2 = MX.Scene(scene_in)
                sc2.add_aircraft("p", copy.deepcopy(snap[1]), state=copy.deepcopy(snap[2]), control_state=copy.deepcopy(snap[3]))
                sc3 = MX.Scene(scene_in)
                sc3.add_aircraft("p", air, state=state, control_state=ctrl)
                f2, f3 = sc2.solve_forces()["p"]["total"]["FL"], sc3.solve_forces()["p"]["total"]["FL"]
                if abs(f2 - f3) > 1e-9 * abs(f2):
                    bad.append("a scene built from the used dictionaries differs from one built from pristine copies: FL %.10g vs %.10g" % (f3, f2))
            elif kind == "writer":
                import os, tempfile
                d = tempfile.mkdtemp(prefix="c20_")
                try:
                    sc = MX.Scene({"units": "English", "scene": {"atmosphere": {"rho": 0.0023769}}})
                    sc.add_aircraft("p", family_G("g5", N=3), state={"velocity": [100.0, 2.0, 5.0]})
                    for nm, call in (("solve_forces", lambda fn: sc.solve_forces(filename=fn)), ("derivatives", lambda fn: sc.derivatives(filename=fn)), ("aero_center", lambda fn: sc.aero_center(filename=fn)),
                                     ("MAC", lambda fn: sc.MAC(filename=fn)), ("pitch_trim", lambda fn: sc.pitch_trim(filename=fn, set_trim_state=False))):
                        fn = os.path.join(d, nm + ".json")
                        ret = call(fn)
                        got = json.load(open(fn))
                        if json.loads(json.dumps(ret)) != got:
                            bad.append("%s: file content differs from the returned object" % nm)
                        os.remove(fn)
                finally:
                    try:
                        os.rmdir(d)
                    except OSError:
                        pass
            elif kind == "cli":
                got = run_cli({"solve_forces": {}, "frobnicate": {}, "distributions": {"filename": "x.csv"}, "export_stl": {}}, "in.json")
                want = [("__init__", "in.json"), ("solve_forces", {"filename": "in_solve_forces.json"}), ("distributions", {"filename": "x.csv"}), ("export_stl", {"filename": "in.stl"})]
                if got != want:
                    bad.append("CLI calls %s, documented %s" % (got, want))
        return {"reproduced": bool(bad), "key": "%s: %s" % (kind, bad[0][:60] if bad else ""), "observed": bad, "what": "; ".join(bad)[:500]}
    return rp


REPLAYS = {"mutation": replay_generic("mutation"), "writer": replay_generic("writer"), "cli": replay_generic("cli"), "csv": lambda inp: {"reproduced": True, "key": "csv differs", "what": "see obligation label"}}


def main(tier, seed, only=None):
    ck = Check("C20", tier, seed, REPLAYS)
    facade.install()
    import machupX.__main__ as MM
    import machupX.scene as SC, machupX.airplane as AP, machupX.wing_segment as WS
    ck.encoded(MM._run_prescribed_analyses, SC.Scene.solve_forces, SC.Scene.derivatives, SC.Scene.pitch_trim, SC.Scene.pitch_trim_using_orientation, SC.Scene.aero_center, SC.Scene.MAC, SC.Scene.target_CL,
               SC.Scene.distributions, SC.Scene._load_params, AP.Airplane._load_params, WS.WingSegment._initialize_params)
    ck.stub("Scene stand-in recording calls (H1)", "json.dump / open recorders (H2)", "LLsolve, AeroADT (H2, H3)", "write-monitoring dict / list subclasses (H3)")
    ck.assume("H3 is monitored under symbolic execution: the solver decides path feasibility only")
    ck.out_of_claim("bytes of STL / VTK files and airfoil outlines", "'%e' formatting of CSV numbers (values are compared after parsing)", "subprocess execution of python -m machupX", "symbolic file names")
    tasks = []
    if not only or "cli" in only:
        tasks.append(("cli", harness_cli))
    if not only or "writers" in only:
        tasks.append(("writers", harness_writers))
    if not only or "csv" in only:
        tasks.append(("csv", harness_csv))
    if not only or "mut" in only:
        tasks.append(("mut", harness_mut))
    run_parallel(ck, tasks)
    ck.bound(commands=12, analyses_with_filename=len(WRITERS), inputs="scene, airplane (shared grid dictionary, cluster points, symbolic leaves), state and control dictionaries")
    ck.rung("H1, H2, H3")
    return ck.finish()
