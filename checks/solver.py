"""Solver-level harness shared by C01 and C14: the real solve_forces dispatch, _solve_linear, _solve_nonlinear, _solve_w_scipy and
_handle_error run symbolically with

* FlowStub   -- `_calc_invariant_flow_properties` replaced by a recorder that fills the flow arrays with fresh symbols tagged with
                the physical state they were computed for;
* ResidStub  -- `_lifting_line_residual(gamma)` replaced by an uninterpreted residual (fresh vector per call) that records the flow
                tag in force and fills the arrays the Newton step reads;
* linsolve, fsolve (arbitrary x, symbolic ier), `_integrate_forces_and_moments` recorder.
"""
import numpy as np
import z3

from symx import facade, smt
from symx.values import SR, SB, sym, ctx, zexpr, simp, exact
from symx.facade import wrap, SA

from checks.families import family_G


def symarr(prefix, shape):
    a = np.empty(shape, dtype=object)
    for idx in np.ndindex(*shape):
        a[idx] = sym("%s_%s" % (prefix, "_".join(map(str, idx))))
    return a.view(SA)


class Rec:
    def __init__(self):
        self.flow = []        # (tag, state)
        self.resid = []       # dict(tag, gamma, R, state_now)
        self.linear = []      # dict(tag, state_now)
        self.integrate = []   # dict(gamma, kwargs, tag, state_now)
        self.order = []
        self.fsolve = []


def phys_state(sc):
    st = []
    for ap in sc._airplane_objects:
        for arr in (ap.v, ap.w, ap.q, ap.p_bar):
            st += [simp(zexpr(SR(x))) for x in np.asarray(arr, dtype=object).reshape(-1)]
        for seg in ap.segments:
            st += [simp(zexpr(SR(x))) for x in np.asarray(seg._delta_flap, dtype=object).reshape(-1)]
    return st


def make_scene(solver, member="m1", N=2):
    import machupX as MX
    sc = MX.Scene({"units": "English", "solver": dict(solver), "scene": {"atmosphere": {"rho": 0.0023769}}})
    sc.add_aircraft("p", family_G(member, N=N), state={"velocity": [100.0, 0.0, 5.0]})
    return sc


def install(sc, rec, fsolve_ier=None):
    """instance-level stubs (the class in /repo is untouched)"""
    import machupX.scene as SC
    N = sc._N
    cnt = {"flow": 0, "res": 0}

    def calc_flow():
        k = cnt["flow"]; cnt["flow"] += 1
        rec.flow.append((k, phys_state(sc)))
        rec.order.append("flow")
        sc._flow_tag = k
        for nm, shape in (("_V_ji", (N, N, 3)), ("_v_inf_and_rot", (N, 3)), ("_v_inf", (N, 3)), ("_V_inf", (N,)), ("_V_inf_in_plane", (N,)), ("_V_inf_and_rot", (N,)), ("_CLa", (N,)), ("_CL", (N,)),
                          ("_aL0", (N,)), ("_alpha_inf", (N,)), ("_u_inf", (N, 3))):
            setattr(sc, nm, symarr("F%d%s" % (k, nm), shape))
        sc._solved = False
    sc._calc_invariant_flow_properties = calc_flow

    def resid(gamma):
        k = cnt["res"]; cnt["res"] += 1
        R = symarr("R%d" % k, (N,))
        rec.resid.append({"tag": getattr(sc, "_flow_tag", None), "gamma": [simp(zexpr(SR(g))) for g in np.asarray(gamma, dtype=object).reshape(-1)], "R": R, "state": phys_state(sc), "k": k})
        rec.order.append("resid")
        sc._gamma = gamma
        for nm, shape in (("_w_i", (N, 3)), ("_w_i_mag", (N,)), ("_v_i", (N, 3)), ("_v_i_in_plane", (N, 3)), ("_V_i_in_plane_2", (N,)), ("_V_i_in_plane", (N,)), ("_V_i_2", (N,)), ("_V_i", (N,)),
                          ("_v_a", (N,)), ("_v_n", (N,)), ("_CL", (N,)), ("_CLa", (N,)), ("_CLRe", (N,)), ("_CLM", (N,))):
            setattr(sc, nm, symarr("E%d%s" % (k, nm), shape))
        return R
    sc._lifting_line_residual = resid

    def integrate(**kwargs):
        rec.integrate.append({"gamma": [simp(zexpr(SR(g))) for g in np.asarray(sc._gamma, dtype=object).reshape(-1)], "kwargs": kwargs, "tag": getattr(sc, "_flow_tag", None), "state": phys_state(sc)})
        rec.order.append("integrate")
        sc._FM = {"p": {"total": {"marker": len(rec.integrate)}}}
        return 0.0
    sc._integrate_forces_and_moments = integrate
    # wrap the real _solve_linear to record the flow tag its system was built from
    real_lin = sc._solve_linear

    def solve_linear(**kwargs):
        r = real_lin(**kwargs)
        rec.linear.append({"tag": getattr(sc, "_flow_tag", None), "state": phys_state(sc)})
        rec.order.append("linear")
        return r
    sc._solve_linear = solve_linear
    # fsolve: arbitrary answer, symbolic termination flag
    class _Sopt:
        def __getattr__(self, n):
            import scipy.optimize as so
            return getattr(so, n)

        @staticmethod
        def fsolve(fun, x0, full_output=True, **kw):
            R = fun(wrap(np.asarray(x0, dtype=object)))           # at least one residual evaluation, as scipy does
            x = symarr("xfs", (N,))
            fun(x)
            ier = fsolve_ier if fsolve_ier is not None else 1
            rec.fsolve.append(ier)
            rec.order.append("fsolve")
            info = {"nfev": 2, "fvec": np.zeros(N)}
            return x, info, ier, "stub"
    rec._saved_sopt = SC.sopt
    SC.sopt = _Sopt()


def uninstall(rec):
    import machupX.scene as SC
    if hasattr(rec, "_saved_sopt"):
        SC.sopt = rec._saved_sopt


class IntLike:
    """symbolic integer-valued flag (only compared with != / ==)"""
    def __init__(self, name):
        self.e = z3.Int(name)

    def __ne__(self, o):
        return SB(self.e != int(o))

    def __eq__(self, o):
        return SB(self.e == int(o))

    __hash__ = None
