"""C10 -- trim, target-CL and aerodynamic-centre results satisfy their defining conditions.

H1  the real trim loops (pitch_trim, pitch_trim_using_orientation, target_CL) with LLsolve, unrolled: every path ends in
    MaxIterationError, or returns values which -- applied to a freshly constructed scene through the public API -- give
    exactly the state of the last residual evaluation, and that evaluation passed |CL - CL_target| <= 1e-9 (and Cm);
    default target = W / (0.5 rho V^2 S) with the air-relative speed; missing control -> IOError; the already-trimmed path.
H2  the real aero_center with symbolic stub results: perturbed states are the documented ones; the returned point makes the
    first and second alpha-differences of the transferred pitching moment vanish, Cm_ac is the transferred moment, y = 0.
"""
import numpy as np
import z3

from symx import facade, smt
from symx.explore import explore
from symx.harness import Check, Finding
from symx.smt import Obligation
from symx.values import SR, sym, zexpr, ctx, simp
from symx.rel import cone_defs

from checks import analysis as AN
from checks import refmodels as RM
from checks.C09 import make_spec, setup_ctx, model_vals, _sanitise, NAME
from checks.C08 import extra_assumptions, aero_of

TOL = z3.RealVal("1e-9")


def last_residual_call(w, scene_id):
    """the last LLsolve call issued by _get_aircraft_pitch_trim_residuals / the final CL evaluation of target_CL"""
    for c in reversed(w.calls):
        if c["scene"] == scene_id:
            return c
    return None


def run_trim(which, kw_extra, use_default_target):
    w = AN.new_world()
    lab = RM.Lab(make_spec(True), symbolic=True)
    sc = lab.fresh()
    ap = sc._airplanes[NAME]
    a0 = aero_of(sc, NAME)
    pre = AN.snapshot(sc)
    rho = sc._get_density(ap.p_bar)
    vrel = ap.v - sc._get_wind(ap.p_bar)
    Vsq = vrel[0] * vrel[0] + vrel[1] * vrel[1] + vrel[2] * vrel[2]
    CW = ap.W / (0.5 * rho * Vsq * ap.S_w)          # documented default target: weight coefficient with the air-relative speed
    kw = dict(kw_extra)
    tgt = {}
    if which == "target_CL":
        tgt["CL"] = sym("CLt")
        kw["CL"] = tgt["CL"]
        kw["control_state"] = {"elevator": sym("tde"), "aileron": sym("tda")}
    else:
        if use_default_target:
            tgt["CL"], tgt["Cm"] = CW, 0.0
        else:
            tgt["CL"], tgt["Cm"] = sym("CLt"), sym("Cmt")
            kw["CL"], kw["Cm"] = tgt["CL"], tgt["Cm"]
    exc, ret = None, None
    ncalls0 = len(w.calls)
    try:
        ret = getattr(sc, which)(max_iterations=2, **kw)
    except Exception as e:
        exc = e
    out = {"exc": exc, "ret": ret, "world": w, "tgt": tgt, "a0": a0, "pre": pre, "post": AN.snapshot(sc), "a1": aero_of(sc, NAME), "kw": kw}
    if exc is None:
        last = last_residual_call(w, id(sc))
        out["last"] = last
        base = lab.spec["aircraft"][NAME]["state"]
        cs0 = dict(lab.spec["aircraft"][NAME]["controls"])
        if which == "pitch_trim":
            r = ret[NAME]
            cs = dict(cs0); cs[kw.get("pitch_control", "elevator")] = r[kw.get("pitch_control", "elevator")]
            fresh = lab.fresh({NAME: {"state": RM.state_with_aero(base, r["alpha"], a0[1], a0[2]), "controls": cs}})
        elif which == "target_CL":
            fresh = lab.fresh({NAME: {"state": RM.state_with_aero(base, ret, a0[1], a0[2]), "controls": dict(kw["control_state"])}})
        else:
            st, cs = ret
            fresh = lab.fresh({NAME: {"state": st, "controls": dict(cs)}})
        out["fresh_state"] = w.scene_state(fresh)
        # preserved quantities of the orientation variant: bank, heading, position, Earth-fixed velocity
        if which == "pitch_trim_using_orientation":
            from machupX.helpers import quat_to_euler
            apf = fresh._airplanes[NAME]
            out["euler_pre"] = quat_to_euler(facade.wrap(np.array([SR(x) for x in pre[NAME]["q"]], dtype=object)))
            out["euler_post"] = quat_to_euler(apf.q)
            out["v_fresh"] = [simp(zexpr(x)) for x in apf.v]
            out["p_fresh"] = [simp(zexpr(x)) for x in apf.p_bar]
    return out


def harness_trim(ck, which, kw_extra, use_default_target, label):
    assum = [z3.Real("CLt") > -2, z3.Real("CLt") < 2, z3.Real("Cmt") > -1, z3.Real("Cmt") < 1] + extra_assumptions()
    res = explore(lambda: run_trim(which, kw_extra, use_default_target), assumptions=assum, max_paths=24, setup=setup_ctx)
    ck.add_paths(res)
    n_ret = 0
    for p in res:
        lab = "%s path%s" % (label, "".join("1" if d else "0" for d in p.decisions))
        if not p.ok:
            ck.inconc("%s: %s %r %s" % (lab, p.kind, p.exc, (p.tb or "")[-400:]))
            continue
        v = p.value
        base_facts = list(p.ctx.assumptions) + list(p.ctx.pc)

        def mk(ob, which=which, kw_extra=kw_extra, use_default_target=use_default_target):
            return Finding("trim", {"which": which, "kw": {k: v for k, v in kw_extra.items()}, "default_target": use_default_target,
                                    "vals": model_vals(ob.model), "twice": ob.meta.get("twice", False)}, ob.label, ob.model)

        def facts_for(exprs):
            return base_facts + cone_defs(p.ctx, exprs)
        if v["exc"] is not None:
            ename = type(v["exc"]).__name__
            if ename == "MaxIterationError":
                continue
            # any other exception on a feasible path is a violation candidate (the contract is: return or MaxIterationError)
            ob = Obligation("%s raises %s instead of returning or MaxIterationError" % (lab, ename), p.facts(), z3.BoolVal(False), meta={"finding": mk, "twice": True})
            ck.add([ob])
            continue
        n_ret += 1
        last = v["last"]
        obs = []
        # (a) returned values reproduce the state of the last residual evaluation
        if last is None or len(last["state"]) != len(v["fresh_state"]):
            obs.append(Obligation(lab + " last residual evaluation exists", [], z3.BoolVal(False), meta={"finding": mk}))
        else:
            diff = [(a, b) for a, b in zip(last["state"], v["fresh_state"]) if a.get_id() != b.get_id()]
            if not diff:
                obs.append(Obligation(lab + " returned values reproduce the last residual evaluation", [], z3.BoolVal(True)))
            for i in range(0, len(diff), 12):
                ch = diff[i:i + 12]
                obs.append(Obligation("%s returned values reproduce the last residual evaluation [%d]" % (lab, i // 12), facts_for([x for pr in ch for x in pr]),
                                      z3.And(*[a == b for a, b in ch]), meta={"finding": mk}))
            # (b) that evaluation met the documented targets
            tot = last["out"][NAME]["total"]
            terms = []
            if "CL" in tot:
                d = zexpr(tot["CL"]) - zexpr(SR(v["tgt"]["CL"]))
                terms += [d <= TOL, -d <= TOL]
            else:
                terms.append(z3.BoolVal(False))
            if which != "target_CL":
                d = zexpr(tot["Cm"]) - zexpr(SR(v["tgt"]["Cm"])) if "Cm" in tot else None
                terms += [d <= TOL, -d <= TOL] if d is not None else [z3.BoolVal(False)]
            g = z3.And(*terms)
            obs.append(Obligation(lab + " targets met within 1e-9 at the returned state", AN.sliced_facts(p.ctx, g), g, meta={"finding": mk}))
        # (c) only alpha / elevation and the pitch control change
        pre, post = v["pre"][NAME], v["post"][NAME]
        if which in ("pitch_trim", "target_CL"):
            terms = [zexpr(SR(v["a1"][1])) == zexpr(SR(v["a0"][1])), zexpr(SR(v["a1"][2])) == zexpr(SR(v["a0"][2]))]
            terms += [a == b for a, b in zip(pre["w"] + pre["q"] + pre["p"], post["w"] + post["q"] + post["p"])]
            if which == "pitch_trim":
                pc = v["kw"].get("pitch_control", "elevator")
                terms += [post["controls"][k] == pre["controls"][k] for k in pre["controls"] if k != pc]
            g = z3.And(*terms)
            obs.append(Obligation(lab + " only alpha and the pitch control changed", facts_for([g]), g, meta={"finding": mk}))
        else:
            E0, E1 = v["euler_pre"], v["euler_post"]
            terms = [zexpr(SR(E0[0])) == zexpr(SR(E1[0])), zexpr(SR(E0[2])) == zexpr(SR(E1[2]))]
            g1 = z3.And(*terms)
            g2 = z3.And(*[a == b for a, b in zip(pre["v"] + pre["p"] + pre["w"], v["v_fresh"] + v["p_fresh"] + post["w"])])
            g3 = z3.And(*[post["controls"][k] == pre["controls"][k] for k in pre["controls"] if k != "elevator"])
            obs.append(Obligation(lab + " Earth-fixed velocity, position, rates preserved", facts_for([g2]), g2, meta={"finding": mk}))
            obs.append(Obligation(lab + " other controls preserved", facts_for([g3]), g3, meta={"finding": mk}))
            ck.note("bank/heading preservation of the orientation variant needs euler(quat(phi,theta,psi)) = (phi,theta,psi); checked in C03-L0 (Euler round trip), composed on paper")
        ck.add(obs)
        ck.add([Obligation(lab + " reach", base_facts, z3.BoolVal(True), witness=True)])
        if last is not None and "CL" in last["out"][NAME]["total"]:
            ck.add([Obligation(lab + " canary", base_facts, zexpr(last["out"][NAME]["total"]["CL"]) == zexpr(SR(v["tgt"]["CL"])) + 1, canary=True)])
        if len(ck.samples) < 4:
            ck.sample({"harness": label, "path": p.decisions, "LLsolve_calls": len(v["world"].calls), "returned": str(v["ret"])[:300]})
    if n_ret == 0:
        ck.inconc("%s: no returning path explored" % label)


def run_missing_control(which):
    AN.new_world()
    lab = RM.Lab(make_spec(True), symbolic=True)
    sc = lab.fresh()
    try:
        getattr(sc, which)(pitch_control="no_such_control", max_iterations=2)
    except Exception as e:
        return type(e).__name__
    return "returned"


def harness_missing(ck, which):
    res = explore(lambda: run_missing_control(which), assumptions=extra_assumptions(), max_paths=8, setup=setup_ctx)
    ck.add_paths(res)
    for p in res:
        lab = "%s missing pitch control path%s" % (which, "".join("1" if d else "0" for d in p.decisions))
        if not p.ok:
            ck.inconc("%s: %s %r" % (lab, p.kind, p.exc))
            continue
        ob = Obligation(lab + " -> IOError", [], z3.BoolVal(p.value in ("IOError", "OSError")),
                        meta={"finding": lambda ob, which=which: Finding("missing", {"which": which}, ob.label)})
        ck.add([ob])


# ---- H2 aero_center ---------------------------------------------------------------------------------------------
def run_ac():
    w = AN.new_world()
    lab = RM.Lab(make_spec(True), symbolic=True)
    sc = lab.fresh()
    ap = sc._airplanes[NAME]
    a0 = aero_of(sc, NAME)
    n0 = len(w.calls)
    res = sc.aero_center()[NAME]
    calls = [c for c in w.calls[n0:]]
    # reference states: alpha0 - 0.5, alpha0, alpha0 + 0.5 degrees at fixed beta and airspeed, relative to the local wind
    base = lab.spec["aircraft"][NAME]["state"]
    ref_states = []
    for da in (None, -0.5, 0.5):
        if da is None:
            fs = lab.fresh()
        else:
            fs = lab.fresh({NAME: {"state": RM.state_with_aero(base, a0[0] + da, a0[1], a0[2])}})
        ref_states.append(w.scene_state(fs))
    return {"res": res, "calls": calls, "ref_states": ref_states, "CG": [ap.CG[0], ap.CG[1], ap.CG[2]], "l_ref": ap.l_ref_lon, "world": w}


def harness_ac(ck):
    res = explore(run_ac, assumptions=extra_assumptions(), max_paths=6, setup=setup_ctx)
    ck.add_paths(res)
    for p in res:
        lab = "aero_center path%s" % "".join("1" if d else "0" for d in p.decisions)
        if not p.ok:
            ck.inconc("%s: %s %r %s" % (lab, p.kind, p.exc, (p.tb or "")[-300:]))
            continue
        v = p.value
        base_facts = list(p.ctx.assumptions) + list(p.ctx.pc)

        def mk(ob):
            return Finding("ac", {"vals": model_vals(ob.model)}, ob.label, ob.model)

        def facts_for(exprs):
            return base_facts + cone_defs(p.ctx, exprs)
        obs = []
        if len(v["calls"]) != 3:
            obs.append(Obligation(lab + " three solves", [], z3.BoolVal(False), meta={"finding": mk}))
            ck.add(obs)
            continue
        # the code evaluates: original, alpha - delta, alpha + delta (in that order)
        for i, (c, rs, nm) in enumerate(zip(v["calls"], v["ref_states"], ("alpha0", "alpha0-0.5deg", "alpha0+0.5deg"))):
            diff = [(a, b) for a, b in zip(c["state"], rs) if a.get_id() != b.get_id()]
            g = z3.And(*[a == b for a, b in diff]) if diff else z3.BoolVal(True)
            obs.append(Obligation("%s evaluation %d at the documented state %s" % (lab, i, nm), facts_for([g]), g, meta={"finding": mk}))
        F1, F0, F2 = (c["out"][NAME]["total"] for c in v["calls"])
        ac, Cm_ac = v["res"]["aero_center"], v["res"]["Cm_ac"]
        l = v["l_ref"]
        # transferred pitching-moment coefficient about the returned point: Cm'(a) = Cm(a) - (dz*Cx(a) - dx*Cz(a))/l,  (dx,dz) = AC - CG
        dx = SR(ac[0]) - v["CG"][0]
        dz = SR(ac[2]) - v["CG"][2]

        def Cmp(F):
            return F["Cm"] - (dz * F["Cx"] - dx * F["Cz"]) / l
        first = Cmp(F2) - Cmp(F0)
        second = Cmp(F2) - 2.0 * Cmp(F1) + Cmp(F0)
        g = z3.And(zexpr(first) == 0, zexpr(second) == 0, zexpr(SR(Cm_ac)) == zexpr(Cmp(F1)), zexpr(SR(ac[1])) == 0)
        # the formulas divide by denom = CN_a*CA_a2 - CA_a*CN_a2: assumed non-zero (documented singular case excluded)
        obs.append(Obligation(lab + " stationarity (first and second alpha-difference vanish), Cm_ac, y=0", facts_for([g]), g, meta={"finding": mk}))
        obs.append(Obligation(lab + " canary", facts_for([g]), zexpr(first) == 1, canary=True))
        obs.append(Obligation(lab + " reach", p.facts(), z3.BoolVal(True), witness=True))
        ck.add(obs)
        ck.sample({"harness": "aero_center", "x_ac": str(ac[0])[:300]})


# ---- replay -----------------------------------------------------------------------------------------------------
def replay_trim(inp):
    which = inp["which"]
    rng = np.random.RandomState(0)
    cands = [inp.get("vals", {})] + [{"W0": rng.uniform(-15, 15), "W1": rng.uniform(-15, 15), "W2": rng.uniform(-3, 3), "u": rng.uniform(90, 110), "v": rng.uniform(-3, 3),
                                      "w": rng.uniform(2, 8), "q0": 1.0, "q1": rng.uniform(-.05, .05), "q2": rng.uniform(-.1, .1), "q3": rng.uniform(-.3, .3),
                                      "wp": 0.0, "wq": 0.0, "wr": 0.0, "da": rng.uniform(-2, 2), "de": rng.uniform(-2, 2)} for _ in range(2)]
    tried = []
    with AN.real_classes():
        for vals in cands:
            vals = _sanitise(vals)
            lab = RM.Lab(make_spec(False, vals), symbolic=False)
            sc = lab.fresh()
            ap = sc._airplanes[NAME]
            kw = dict(inp.get("kw", {}))
            try:
                a0 = ap.get_aerodynamic_state(v_wind=sc._get_wind(ap.p_bar))
                rho = sc._get_density(ap.p_bar)
                CW = ap.W / (0.5 * rho * a0[2] ** 2 * ap.S_w)
                if which == "target_CL":
                    kw.update(CL=0.4, control_state={"elevator": 1.0, "aileron": 0.5})
                    tgt = {"CL": 0.4}
                elif inp.get("default_target", True):
                    tgt = {"CL": CW, "Cm": 0.0}
                else:
                    kw.update(CL=0.45, Cm=0.01)
                    tgt = {"CL": 0.45, "Cm": 0.01}
                try:
                    ret = getattr(sc, which)(**kw)
                    if inp.get("twice"):
                        ret = getattr(sc, which)(**kw)
                except Exception as e:
                    if type(e).__name__ == "MaxIterationError":
                        tried.append({"vals": vals, "MaxIterationError": True})
                        continue
                    return {"reproduced": True, "key": "%s raises %s" % (which, type(e).__name__), "observed": {"vals": vals, "error": repr(e)},
                            "what": "%s%s at state %s raised %r instead of returning or MaxIterationError" % (which, " (called twice)" if inp.get("twice") else "", vals, e)}
                base = lab.spec["aircraft"][NAME]["state"]
                cs0 = dict(lab.spec["aircraft"][NAME]["controls"])
                if which == "pitch_trim":
                    r = ret[NAME]
                    cs = dict(cs0); cs["elevator"] = r["elevator"]
                    fresh = lab.fresh({NAME: {"state": RM.state_with_aero(base, r["alpha"], a0[1], a0[2]), "controls": cs}})
                elif which == "target_CL":
                    fresh = lab.fresh({NAME: {"state": RM.state_with_aero(base, ret, a0[1], a0[2]), "controls": kw["control_state"]}})
                else:
                    fresh = lab.fresh({NAME: {"state": ret[0], "controls": ret[1]}})
                tot = fresh.solve_forces(dimensional=False)[NAME]["total"]
            except Exception as e:
                tried.append({"vals": vals, "error": repr(e)})
                continue
            bad = []
            if abs(tot["CL"] - tgt["CL"]) > 1e-9:
                bad.append("CL = %.12g, target %.12g" % (tot["CL"], tgt["CL"]))
            if "Cm" in tgt and abs(tot["Cm"] - tgt["Cm"]) > 1e-9:
                bad.append("Cm = %.3g, target %.3g" % (tot["Cm"], tgt["Cm"]))
            if which == "pitch_trim_using_orientation":
                v1 = np.array(fresh._airplanes[NAME].v, dtype=float)
                v0 = np.array(lab.fresh()._airplanes[NAME].v, dtype=float)
                if not np.allclose(v0, v1, rtol=1e-9, atol=1e-9):
                    bad.append("Earth-fixed velocity changed by %.3g" % float(np.max(np.abs(v0 - v1))))
            tried.append({"vals": vals, "bad": bad})
            if bad:
                return {"reproduced": True, "key": "%s targets not met: %s" % (which, ",".join(b.split(" ")[0] for b in bad)), "observed": {"vals": vals, "bad": bad},
                        "what": "%s at state %s: applying the returned values to a fresh scene gives %s" % (which, vals, "; ".join(bad))}
    return {"reproduced": False, "why": "targets met at %d concrete states" % len(tried), "observed": tried}


def replay_missing(inp):
    with AN.real_classes():
        lab = RM.Lab(make_spec(False, {}), symbolic=False)
        sc = lab.fresh()
        try:
            getattr(sc, inp["which"])(pitch_control="no_such_control")
            got = "returned"
        except Exception as e:
            got = type(e).__name__
    return {"reproduced": got not in ("IOError", "OSError"), "key": "%s missing control -> %s" % (inp["which"], got), "observed": got,
            "what": "%s(pitch_control='no_such_control') -> %s, expected IOError" % (inp["which"], got)}


def replay_ac(inp):
    rng = np.random.RandomState(1)
    cands = [inp.get("vals", {})] + [{"W0": rng.uniform(-15, 15), "W1": rng.uniform(-15, 15), "W2": rng.uniform(-3, 3), "u": 100.0, "v": rng.uniform(-3, 3), "w": rng.uniform(2, 8),
                                      "q0": 1.0, "q1": rng.uniform(-.1, .1), "q2": rng.uniform(-.1, .1), "q3": rng.uniform(-.3, .3)} for _ in range(2)]
    tried = []
    with AN.real_classes():
        for vals in cands:
            vals = _sanitise(vals)
            spec = make_spec(False, vals)
            lab = RM.Lab(spec, symbolic=False)
            sc = lab.fresh()
            try:
                res = sc.aero_center()[NAME]
                ac = res["aero_center"]
                # place the CG at the returned point and measure Cm and its alpha-differences with the real solver
                spec2 = make_spec(False, vals)
                spec2["aircraft"][NAME]["input"]["CG"] = list(ac)
                lab2 = RM.Lab(spec2, symbolic=False)
                sc2 = lab2.fresh()
                ap2 = sc2._airplanes[NAME]
                a0 = ap2.get_aerodynamic_state(v_wind=sc2._get_wind(ap2.p_bar))
                base = spec2["aircraft"][NAME]["state"]
                Cm = [lab2.F({NAME: {"state": RM.state_with_aero(base, a0[0] + d, a0[1], a0[2])}}, dimensional=False)[NAME]["total"]["Cm"] for d in (-0.5, 0.0, 0.5)]
            except Exception as e:
                tried.append({"vals": vals, "error": repr(e)})
                continue
            bad = []
            Cm_a = (Cm[2] - Cm[0]) / np.radians(1.0)
            if abs(Cm_a) > 1e-6:
                bad.append("Cm,alpha about the returned point = %.3g" % Cm_a)
            if abs(Cm[1] - res["Cm_ac"]) > 1e-7:
                bad.append("Cm about the returned point = %.8g, reported Cm_ac = %.8g" % (Cm[1], res["Cm_ac"]))
            if abs(ac[1]) > 0:
                bad.append("y_ac = %g" % ac[1])
            tried.append({"vals": vals, "bad": bad})
            if bad:
                return {"reproduced": True, "key": "aero_center: " + ",".join(b.split(" ")[0] for b in bad), "observed": {"vals": vals, "bad": bad},
                        "what": "aero_center at state %s: %s" % (vals, "; ".join(bad))}
    return {"reproduced": False, "why": "conditions hold at %d states" % len(tried), "observed": tried}


REPLAYS = {"trim": replay_trim, "missing": replay_missing, "ac": replay_ac}


def main(tier, seed, only=None):
    ck = Check("C10", tier, seed, REPLAYS)
    facade.install()
    AN.patch_classes()
    import machupX.scene as SC
    ck.encoded(SC.Scene.pitch_trim, SC.Scene.pitch_trim_using_orientation, SC.Scene.target_CL, SC.Scene.aero_center,
               SC.Scene._get_aircraft_pitch_trim_residuals, SC.Scene._get_aircraft_q_inf, SC.Scene.set_aircraft_control_state)
    ck.stub("LLsolve", "AeroADT (with V = |x|)", "np.linalg.solve on a symbolic 2x2 system: fresh solution constrained by J x = -R")
    ck.assume("reals, not floats", "unit quaternion away from gimbal lock", "uniform symbolic wind, constant density",
              "aero_center: the denominator CN_a*CA_a2 - CA_a*CN_a2 is non-zero (division is an inv atom with inv*denom = 1)",
              "moment transfer law Cm'(a) = Cm(a) - (dz*Cx - dx*Cz)/l_ref for a CG moved by (dx,0,dz); the law itself follows from r_CG = PC - CG (C02)")
    ck.out_of_claim("convergence of the Newton / secant iterations", "loop iterations beyond the unrolling bound (max_iterations = 2)")
    plan = [("pitch_trim", {}, True, "pitch_trim default target"), ("pitch_trim", {}, False, "pitch_trim given targets"),
            ("pitch_trim_using_orientation", {}, True, "orientation trim default target"),
            ("target_CL", {}, False, "target_CL")]
    if tier == "thorough":
        plan += [("pitch_trim", {"relaxation": 0.5}, True, "pitch_trim relaxed"), ("pitch_trim_using_orientation", {}, False, "orientation trim given targets"),
                 ("pitch_trim_using_orientation", {"relaxation": 0.5}, True, "orientation trim relaxed")]
    tasks = []
    for which, kw, dflt, label in plan:
        if only and not any(o in label for o in only):
            continue
        tasks.append((label, lambda c, which=which, kw=kw, dflt=dflt, label=label: harness_trim(c, which, kw, dflt, label)))
    if not only or "missing" in only:
        for which in ("pitch_trim", "pitch_trim_using_orientation"):
            tasks.append(("missing " + which, lambda c, which=which: harness_missing(c, which)))
    if not only or "ac" in only:
        tasks.append(("aero_center", harness_ac))
    from symx.harness import run_parallel
    run_parallel(ck, tasks)
    ck.bound(aircraft="family member g5, N=8", loop_unrolling=2, state="all symbolic incl. targets", max_paths=24)
    ck.rung("rung 1: stub-level harness")
    return ck.finish()
