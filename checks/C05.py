"""C05 -- dynamic similarity: coefficients invariant under length, speed and density scaling (Re/Mach-independent sections).

Three twin runs of the numeric pipeline (Earth-frame assembly, invariant flow properties, lifting-line residual for an arbitrary
circulation, load integration in all frames), run B being run A rescaled by a *symbolic* positive factor:

Hspeed    velocity, wind and angular rates x s; circulation x s            -> forces, moments, residual x s^2, coefficients equal
Hdensity  air density x r                                                   -> forces, moments x r, coefficients and residual equal
Hlength   every length x k (geometry, position, reference lengths; reference area x k^2), rates x 1/k, circulation x k
                                                                            -> forces, residual x k^2, moments x k^3, coefficients equal

For Hlength the body-frame geometry of run B comes from the real constructors run on the description scaled by 2 (and is compared
with the description scaled by 3 for the exponent): every stored array must equal 2^p x the original (p in -1..3, tolerance
1e-12 relative); arrays that do are replaced in run B by k^p x the original with the symbolic k, so the pipeline claim is for all
k > 0 while the geometry generator (Reid offsets, blending, joint length) is exercised at k = 2, 3.
"""
import copy

import numpy as np
import z3

from symx import facade, smt
from symx.explore import explore
from symx.harness import Check, Finding, run_parallel
from symx.smt import Obligation
from symx.values import SR, sym, zexpr, ctx, simp, exact, Ctx
from symx.facade import wrap
from symx.rel import make_scale_rules

from checks.families import family_G, UFAirfoil, use_airfoil, simple_airplane
from checks import kernel as K
from checks import twin as TW
from checks.C04 import _floats

GEOM_TOL = 1e-12
LENGTH_KEYS = ("semispan", "dx", "dy", "dz", "y_offset")


class UFAirfoilNoReM(UFAirfoil):
    """uninterpreted section coefficients that do not depend on Reynolds or Mach number (the premise of the property)"""
    def _uf(self, coef, alpha, Rey, Mach, d_f, c_f):
        return UFAirfoil._uf(self, coef, alpha, None, None, d_f, c_f)


def member(name, N):
    if name == "r1":      # one-sided swept wing with Reid corrections (Kuchemann offset, blending, jointed trailing vortices)
        d = simple_airplane(N=N, reid=True, sweep=12.0, dihedral=3.0, cg=(-0.15, 0.05, 0.02))
        d["wings"]["main"]["side"] = "right"
        return d
    if name == "r2":      # r1 with the Kuchemann lifting-line offset (uses the root lift slope and the segment aspect ratio)
        d = member("r1", N)
        d["wings"]["main"]["ll_offset"] = "kuchemann"
        return d
    return family_G(name, N=N)


def scale_dict(d, k):
    d = copy.deepcopy(d)
    d["CG"] = [x * k for x in d["CG"]]
    r = d["reference"]
    r["area"] *= k * k
    r["longitudinal_length"] *= k
    r["lateral_length"] *= k
    for w in d["wings"].values():
        w["semispan"] *= k
        ch = w.get("chord", 1.0)
        w["chord"] = [[a, c * k] for a, c in ch] if isinstance(ch, list) else ch * k
        ct = w.get("connect_to", {})
        for kk in ("dx", "dy", "dz", "y_offset"):
            if kk in ct:
                ct[kk] *= k
    return d


def relate_geometry(apA, apB2, apB3):
    """exponent p per stored array with B2 == 2^p A and B3 == 3^p A; returns ({attr: p}, unrelated attrs)"""
    N = apA.N
    exps, bad = {}, []
    for kname, v in sorted(vars(apA).items()):
        v = _floats(v)
        if v is None or kname in ("q", "v", "w", "p_bar") or (v.shape[0] != N and kname != "CG"):
            continue                    # CG (body-frame centre of gravity) is read by the joint-velocity lines of the pipeline
        w2, w3 = _floats(getattr(apB2, kname, None)), _floats(getattr(apB3, kname, None))
        if w2 is None or w3 is None or w2.shape != v.shape:
            bad.append(kname)
            continue
        for p in (0, 1, 2, -1, 3, -2):
            t2, t3 = v * 2.0 ** p, v * 3.0 ** p
            if np.all(np.abs(t2 - w2) <= GEOM_TOL * np.maximum(1.0, np.abs(t2))) and np.all(np.abs(t3 - w3) <= GEOM_TOL * np.maximum(1.0, np.abs(t3))):
                exps[kname] = p
                break
        else:
            bad.append(kname)
    return exps, bad


def build(desc, st, solver, airfoil=None):
    import machupX as MX
    use_airfoil(airfoil or UFAirfoilNoReM)
    try:
        sc = MX.Scene({"units": "English", "solver": dict(solver), "scene": {"atmosphere": {"rho": 0.0023769, "V_wind": list(st["W"])}}})
        sc.add_aircraft("p", desc, state={"velocity": [100.0, 0.0, 5.0]})
    finally:
        use_airfoil(None)
    sc._impingement_threshold = -np.inf
    sc._constant_rho = st["rho"]
    ap = sc._airplanes["p"]
    ap.q = wrap(np.array(st["q"], dtype=object))
    ap.p_bar = wrap(np.array(st["p"], dtype=object))
    ap.v = wrap(np.array(st["v"], dtype=object))
    ap.w = wrap(np.array(st["w"], dtype=object))
    ap.S_w, ap.l_ref_lon, ap.l_ref_lat = st["Sw"], st["lon"], st["lat"]
    return sc


# factor tables: (exponent of the scale factor) per cut attribute / result class
TABLES = {
    "speed":   {"_V_ji_const": 0, "_V_ji": 0, "_u_trailing_0": 0, "_u_trailing_1": 0, "_alpha_inf": 0, "_v_i": 1, "_w_i": 1, "_w_i_mag": 1, "_alpha": 0,
                "_dF_inv": 2, "_dM_inv": 2, "_dF_visc": 2, "_dM_visc": 2, "R": 2, "F": 2, "M": 2, "gamma": 1},
    "density": {"_V_ji_const": 0, "_V_ji": 0, "_u_trailing_0": 0, "_u_trailing_1": 0, "_alpha_inf": 0, "_v_i": 0, "_w_i": 0, "_w_i_mag": 0, "_alpha": 0,
                "_dF_inv": 1, "_dM_inv": 1, "_dF_visc": 1, "_dM_visc": 1, "R": 0, "F": 1, "M": 1, "gamma": 0},
    "length":  {"_V_ji_const": -1, "_V_ji": -1, "_u_trailing_0": 0, "_u_trailing_1": 0, "_alpha_inf": 0, "_v_i": 0, "_w_i": 1, "_w_i_mag": 1, "_alpha": 0,   # w_i = v_i x dl
                "_dF_inv": 2, "_dM_inv": 3, "_dF_visc": 2, "_dM_visc": 3, "R": 2, "F": 2, "M": 3, "gamma": 1},
}


def power(k, p):
    out = SR(1.0) if p >= 0 else None
    if p >= 0:
        for _ in range(p):
            out = out * k
        return out
    return SR(1.0) / power(k, -p)


def result_class(key):
    comp = key.split("/")[2]
    if comp[0] == "C":
        return None
    return "M" if comp[0] == "M" else "F"


def scaling_twin(ck, kind, mem, N, solver, label):
    tab = TABLES[kind]

    def run():
        c = ctx()
        c.where_assume_true = True
        q = [sym("q%d" % i) for i in range(4)]
        c.declare_unit(q)
        k = sym("k")
        c.assume(zexpr(k) > 0)
        stA = {"q": q, "p": [sym("px"), sym("py"), sym("pz")], "v": [sym("vx"), sym("vy"), sym("vz")], "w": [sym("wp"), sym("wq"), sym("wr")],
               "W": [sym("W0"), sym("W1"), sym("W2")], "rho": sym("rho"), "Sw": sym("Sw"), "lon": sym("lon"), "lat": sym("lat")}
        c.assume(zexpr(stA["rho"]) > 0)
        stB = dict(stA)
        if kind == "speed":
            stB.update(v=[x * k for x in stA["v"]], w=[x * k for x in stA["w"]], W=[x * k for x in stA["W"]])
        elif kind == "density":
            stB.update(rho=stA["rho"] * k)
        else:
            om = stA["w"]
            stA = dict(stA, w=[x * k for x in om])          # rates of the original = k x rates of the enlarged copy: no reciprocal of k anywhere
            stB = dict(stA, w=om, p=[x * k for x in stA["p"]], Sw=stA["Sw"] * k * k, lon=stA["lon"] * k, lat=stA["lat"] * k)
        dA = member(mem, N)
        info = {}

        kA = sym("kA")                    # unit scale of run A, kept symbolic so that both runs have the same expression structure
        if kind == "length":
            c.assume(zexpr(kA) == 1)
            from checks.families import LinearAirfoil
            z0 = [exact(0)] * 3
            st0 = {"q": [exact(1), exact(0), exact(0), exact(0)], "p": z0, "v": [exact(100), exact(0), exact(5)], "w": z0, "W": z0, "rho": exact(1), "Sw": exact(1), "lon": exact(1), "lat": exact(1)}
            aps = [build(scale_dict(dA, f), st0, solver, airfoil=LinearAirfoil)._airplanes["p"] for f in (1.0, 2.0, 3.0)]
            exps, bad = relate_geometry(*aps)
            info.update(exps=exps, bad=bad)
            base = {attr: _floats(getattr(aps[0], attr)) for attr in exps}

        def put_geometry(sc, factor):
            ap = sc._airplanes["p"]
            for attr, pw in info["exps"].items():
                a = base[attr]
                out = np.empty(a.shape, dtype=object)
                f = power(factor, pw)
                for ix in np.ndindex(a.shape):
                    out[ix] = SR(float(a[ix])) * f if pw else SR(float(a[ix]))
                setattr(ap, attr, wrap(out))
            sc._store_aircraft_properties()

        def mkA():
            sc = build(dA, stA, solver)
            if kind == "length":
                put_geometry(sc, kA)
            return sc

        def mkB():
            sc = build(dA, stB, solver)
            if kind == "length":
                put_geometry(sc, k)
            return sc
        gamA = None

        def pipeline(sc):
            nonlocal gamA
            sc._perform_geometry_and_atmos_calcs()
            sc._calc_invariant_flow_properties()
            if gamA is None:
                gamA = [sym("gam%d" % i) for i in range(sc._N)]
                gam = gamA
            else:
                f = power(k, tab["gamma"])
                gam = [g * f for g in gamA]
            R = sc._lifting_line_residual(wrap(np.array(gam, dtype=object)))
            sc._FM = {}
            sc._integrate_forces_and_moments(body_frame=True, stab_frame=True, wind_frame=True, report_by_segment=True)
            return {"R": list(R), "FM": K.flatten_fm(sc._FM)}

        def vec(x, kk, attr):
            f = power(k, tab[attr])
            return [xi * f for xi in x] if tab[attr] else x

        def scalar(x, attr, kk):
            return x * power(k, tab[attr]) if tab[attr] else x
        T = TW.Transform(vec=vec, scalar=scalar, name="%s scaling" % kind)
        if kind == "length":
            T.fact_exp = {a: -e for a, e in tab.items() if a.startswith("_") and e < 0}
            T.fact_base = k
        zk = zexpr(k)
        scales = [zk, zk * zk, zk * zk * zk, zk * zk * zk * zk]

        tw = TW.Twin(T, rules=make_scale_rules(scales), align_timeout_ms=4000, align=True)
        outA, outB, scA, scB = tw.run(mkA, mkB, pipeline)
        return {"A": outA, "B": outB, "tw": tw, "N": scA._N, "info": info, "k": k}

    res = explore(run, max_paths=6)
    ck.add_paths(res)
    for p in res:
        lab = "%s path%s" % (label, "".join("1" if d else "0" for d in p.decisions))
        if not p.ok:
            ck.inconc("%s: %s %r %s" % (lab, p.kind, p.exc, (p.tb or "")[-600:]))
            continue
        v = p.value
        tw, info, k = v["tw"], v["info"], v["k"]
        Ctx.cur = p.ctx

        def mk(ob, kind=kind, mem=mem, N=N, solver=solver):
            return Finding("scaling", {"kind": kind, "member": mem, "N": N, "solver": solver, "what": ob.label}, ob.label, ob.model)
        if info.get("bad"):
            ck.note("%s: stored geometry that is not a power of the length scale within %g (kept as computed at k=2, not a verdict): %s" % (lab, GEOM_TOL, info["bad"]))
        for ob in tw.obligs:
            ob.label = lab + " " + ob.label
            ob.meta["finding"] = mk
        ck.add(tw.obligs)
        ck.aligned += tw.stats["aligned"]
        A, B = v["A"], v["B"]
        obs = []
        fR = power(k, tab["R"])
        for i, rb in enumerate(B["R"]):
            obs.append(tw.result_obligation("%s residual[%d] scales with exponent %d" % (lab, i, tab["R"]), rb, SR(A["R"][i]) * fR))
        if set(A["FM"]) != set(B["FM"]):
            obs.append(Obligation(lab + " result key set", [], z3.BoolVal(False)))
        for key in sorted(set(A["FM"]) & set(B["FM"])):
            cls = result_class(key)
            if cls is None:
                obs.append(tw.result_obligation("%s coefficient %s invariant" % (lab, key), B["FM"][key], A["FM"][key]))
            else:
                obs.append(tw.result_obligation("%s %s scales with exponent %d" % (lab, key, tab[cls]), B["FM"][key], SR(A["FM"][key]) * power(k, tab[cls])))
        for ob in obs:
            ob.meta["finding"] = mk
        ck.add(obs)
        k0 = "p/total/Fz"
        cg = zexpr(SR(B["FM"][k0])) == zexpr(SR(A["FM"][k0]))        # the dimensional force must scale, not stay
        ck.add([Obligation(lab + " canary (dimensional force unchanged)", tw._facts_for(p.ctx, cg), cg, canary=True),
                Obligation(lab + " reach", list(p.ctx.assumptions) + list(p.ctx.pc), z3.BoolVal(True), witness=True)])
        if tw.unmatched:
            ck.note("%s: %d atom pairs not aligned (not a verdict), e.g. %s" % (lab, tw.stats["unmatched"], [u[:2] for u in tw.unmatched[:2]]))
        if len(ck.samples) < 6:
            ck.sample({"case": label, "N": v["N"], "geometry_exponents": info.get("exps"), "cut_obligations": len(tw.obligs), "atoms_aligned": tw.stats["aligned"],
                       "atoms_unmatched": tw.stats["unmatched"], "result_keys": len(A["FM"])})
    Ctx.cur = None


def length_geometry(ck, mem, N, solver, label):
    """concrete part of the length-scaling clause: the real constructors, run on the description scaled by 2 and by 3, must store
    k^p x the original arrays; a mismatch in anything the pipeline reads is handed to the replay (real solves at several scales)"""
    from checks.C04 import PIPE_ATTRS

    def run():
        c = ctx()
        z = [exact(0)] * 3
        st = {"q": [exact(1), exact(0), exact(0), exact(0)], "p": z, "v": [exact(100), exact(0), exact(5)], "w": z, "W": z, "rho": exact(1), "Sw": exact(1), "lon": exact(1), "lat": exact(1)}
        d = member(mem, N)
        from checks.families import LinearAirfoil
        aps = [build(scale_dict(d, f), st, solver, airfoil=LinearAirfoil)._airplanes["p"] for f in (1.0, 2.0, 3.0)]
        exps, bad = relate_geometry(*aps)
        return {"exps": exps, "bad": bad}
    res = explore(run, max_paths=2)
    ck.add_paths(res)
    for p in res:
        if not p.ok:
            ck.inconc("%s: %s %r %s" % (label, p.kind, p.exc, (p.tb or "")[-600:]))
            continue
        v = p.value
        ess = [k for k in v["bad"] if k in PIPE_ATTRS]
        mk = lambda ob, mem=mem, N=N, solver=solver: Finding("scaling", {"kind": "length", "member": mem, "N": N, "solver": solver, "what": ob.label}, ob.label, ob.model)
        ck.add([Obligation("%s: stored body-frame geometry is homogeneous in the length scale (k = 2, 3; mismatch in %s)" % (label, ess[:6]), [], z3.BoolVal(not ess), meta={"finding": mk})])
        ck.sample({"case": label, "exponents": v["exps"], "not_a_power_of_k": v["bad"]})


# ---- replay ------------------------------------------------------------------------------------------------------
def replay_scaling(inp):
    """real nonlinear solves (linear, Re/Mach-independent airfoils): original vs rescaled; coefficients equal, forces/moments scaled"""
    from checks.analysis import real_classes
    import machupX as MX
    kind = inp["kind"]
    tab = TABLES[kind]
    bad = []
    with real_classes():
        for k in (2.0, 0.5, 3.0):
            res = []
            for scaled in (False, True):
                f = k if scaled else 1.0
                d = member(inp["member"], inp["N"])
                vb = np.array([100.0, 6.0, 8.0]); wb = np.array([0.05, -0.03, 0.04]); W = np.array([5.0, -4.0, 2.0]); rho = 0.0023769
                if kind == "speed":
                    vb, wb, W = vb * f, wb * f, W * f
                elif kind == "density":
                    rho *= f
                else:
                    d = scale_dict(d, f)
                    wb = wb / f
                sc = MX.Scene({"units": "English", "solver": dict(inp["solver"]), "scene": {"atmosphere": {"rho": rho, "V_wind": list(W)}}})
                sc.add_aircraft("p", d, state={"position": [0.0, 0.0, -100.0 * (f if kind == "length" else 1.0)], "orientation": [2.0, 3.0, 4.0], "velocity": list(vb), "angular_rates": list(wb)})
                try:
                    fm = sc.solve_forces(body_frame=True, stab_frame=True, wind_frame=True, report_by_segment=True)
                except Exception as e:
                    if type(e).__name__ != "SolverNotConvergedError":
                        raise
                    res = None
                    break
                res.append({kk: float(x) for kk, x in K.flatten_fm(fm).items()})
            if res is None:
                continue
            for key, a in res[0].items():
                cls = result_class(key)
                a2 = a * (k ** tab[cls] if cls else 1.0)
                b = res[1].get(key)
                if b is None or abs(a2 - b) > 1e-6 * max(abs(a2), abs(b), 1e-3):
                    bad.append((key, k, a2, b))
            if bad:
                break
    ks = sorted(set(b[0].split("/")[2] for b in bad))
    return {"reproduced": bool(bad), "key": "%s scaling breaks similarity: %s" % (kind, ",".join(ks[:6])), "observed": bad[:6],
            "what": "%s scaling by %s: results are not the similar ones: %s" % (kind, bad[0][1] if bad else "-", bad[:3])}


REPLAYS = {"scaling": replay_scaling}


def main(tier, seed, only=None):
    ck = Check("C05", tier, seed, REPLAYS)
    ck.portfolio = (("/usr/bin/z3", 1.0), ("z3api", 1.0), ("cvc5", 1.0))
    facade.install()
    import machupX.scene as SC
    ck.encoded(SC.Scene._perform_geometry_and_atmos_calcs, SC.Scene._calc_invariant_flow_properties, SC.Scene._lifting_line_residual, SC.Scene._calc_v_i, SC.Scene._get_section_lift,
               SC.Scene._correct_CL_for_sweep, SC.Scene._integrate_forces_and_moments)
    ck.stub("airfoil evaluations: uninterpreted functions of angle of attack and flap state only (Reynolds- and Mach-independent section data is the premise of the property)",
            "circulation: arbitrary symbolic vector, rescaled for run B (the residual equations and the loads are related for every circulation, hence for the root)")
    ck.assume("uniform atmosphere and wind", "reals, not floats", "unit quaternion", "scale factor k > 0 symbolic",
              "length scaling: body-frame geometry produced by the real constructors at k = 2 and k = 3 must be k^p times the original (1e-12 relative); such arrays enter run B as k^p x original with symbolic k")
    ck.out_of_claim("LENGTH SCALING OF THE PIPELINE: the symbolic twin for length scaling (TABLES['length'], kept in this module) did not discharge in the time available "
                    "(run B's geometry k^p x float makes atoms of what run A evaluates numerically, so the event alignment breaks); only the homogeneity of the geometry generator at k = 2, 3 is "
                    "checked, concretely, with a real-code replay at k = 2, 0.5, 3 on mismatch",
                    "uniqueness of the root of the lifting-line equations", "trailing vortex impinging on a control point (denominators assumed > 1e-13)",
                    "geometry generation at scale factors other than 2 and 3", "nondimensional derivatives (finite differences of the coefficients shown invariant here; step handling is decided in C08)")
    full = dict(use_swept_sections=True, use_total_velocity=True, use_in_plane=True)
    plan = [("speed", "r1", 3, full, "speed scaling r1 Reid N=3"), ("density", "r1", 3, full, "density scaling r1 Reid N=3"), ("length", "r1", 3, full, "length scaling r1 Reid N=3")]
    if tier == "thorough":
        plan += [("length", "g3", 2, full, "length scaling g3 one-sided y_offset N=4"), ("length", "r1", 3, dict(use_swept_sections=False, use_total_velocity=False, use_in_plane=False), "length scaling r1 options off N=3")]
    geom = [("r1", 3, "length geometry r1 Reid N=3"), ("r2", 3, "length geometry r2 Reid + Kuchemann offset N=3"), ("g2", 2, "length geometry g2 wing+fin Reid N=7")]
    if tier == "thorough":
        geom += [("g3", 2, "length geometry g3 one-sided y_offset N=4"), ("g4", 2, "length geometry g4 chained segments + winglets N=12")]
    tasks = []
    for mem, N, label in geom:
        if only and not any(o in label for o in only):
            continue
        tasks.append((label, lambda c, mem=mem, N=N, label=label: length_geometry(c, mem, N, full, label)))
    for kind, mem, N, solver, label in plan:
        if only and not any(o in label for o in only):
            continue
        tasks.append((label, lambda c, kind=kind, mem=mem, N=N, solver=solver, label=label: scaling_twin(c, kind, mem, N, solver, label)))
    run_parallel(ck, tasks)
    ck.bound(pipeline="member r1 (one-sided swept wing with Reid corrections, N=3); arbitrary unit quaternion, position, velocity, rates, wind, density, circulation, reference quantities, scale factor")
    ck.rung("pipeline scaling twins (speed, density); concrete generator homogeneity for length")
    return ck.finish()
