"""C06 -- equivalent input descriptions (units, encodings) give identical results (decided at the parsed-state level).

Hunits  every unit string of both tables against its exact definition (finite domain, enumerated completely, 1e-6 relative), and the
        real import_value on scalar / vector / array-with-unit-row encodings with symbolic numbers against pre-converted values.
Hstate  twin parses of the real Airplane.set_state on equivalent state encodings with symbolic numbers: (u,v,w) vs airspeed+alpha+beta
        (angles defined by the documented relations alpha = atan2(w,u), beta = asin(v/V)), for angular rates given in body, stability
        and wind axes; Euler angles vs the equivalent quaternion; integer-valued vs float-valued lists (concrete, on the real code).
Hpos    position with a unit annotation vs pre-converted, through add_aircraft and set_aircraft_state.
Hdist   scalar vs constant 2-row array distribution: the real span getters agree at a symbolic span location, on both sides.
Results are functions of the parsed state (C02 / C12), so equality of the parsed state carries to the results.
"""
import numpy as np
import z3

from symx import facade, smt
from symx.explore import explore
from symx.harness import Check, Finding, run_parallel
from symx.smt import Obligation
from symx.values import SR, sym, zexpr, ctx, simp, exact
from symx.rel import cone_defs
from symx.facade import wrap

from checks.families import family_G
from checks import analysis as AN

FT, IN, M_, CM = 0.3048, 0.0254, 1.0, 0.01
LBF = 4.4482216152605
SLUG = LBF / FT                      # kg
EXACT_SI = {"ft": FT, "in": IN, "m": 1.0, "cm": CM, "ft/s": FT, "m/s": 1.0, "mph": 1609.344 / 3600, "kph": 1000.0 / 3600, "kn": 1852.0 / 3600, "ft^2": FT ** 2, "m^2": 1.0,
            "slug/ft^3": SLUG / FT ** 3, "kg/m^3": 1.0, "lbf": LBF, "N": 1.0, "deg": 1.0, "rad": 180.0 / np.pi, "deg/s": np.pi / 180.0, "rad/s": 1.0}
SI_PER_ENGLISH_DEFAULT = {"ft": FT, "in": FT, "m": FT, "cm": FT, "ft/s": FT, "m/s": FT, "mph": FT, "kph": FT, "kn": FT, "ft^2": FT ** 2, "m^2": FT ** 2, "slug/ft^3": SLUG / FT ** 3, "kg/m^3": SLUG / FT ** 3,
                          "lbf": LBF, "N": LBF, "deg": 1.0, "rad": 1.0, "deg/s": 1.0, "rad/s": 1.0}


def harness_units(ck):
    import machupX.helpers as H
    mk = lambda ob: Finding("units", {"what": ob.label}, ob.label)
    for unit, si in EXACT_SI.items():
        got_si = float(H.convert_units(1.0, unit, "SI"))
        got_en = float(H.convert_units(1.0, unit, "English"))
        want_en = si / SI_PER_ENGLISH_DEFAULT[unit]
        for sysn, got, want in (("SI", got_si, si), ("English", got_en, want_en)):
            ck.add([Obligation("unit '%s' -> %s default: factor %.9g vs exact %.9g" % (unit, sysn, got, want), [], z3.BoolVal(abs(got - want) <= 1e-6 * abs(want)), meta={"finding": mk})])
    ck.add([Obligation("unit '-' leaves the value unchanged", [], z3.BoolVal(H.convert_units(3.25, "-", "SI") == 3.25 and H.convert_units(3.25, "-", "English") == 3.25), meta={"finding": mk})])

    def run():
        x, y, z_ = sym("x"), sym("y"), sym("z")
        out = {}
        for sysn in ("English", "SI"):
            f = lambda u: float(H.convert_units(1.0, u, sysn))
            out[sysn + " scalar"] = (H.import_value("k", {"k": [x, "m"]}, sysn, None), x * f("m"))
            out[sysn + " scalar padded unit"] = (H.import_value("k", {"k": [x, " ft "]}, sysn, None), x * f("ft"))
            v = H.import_value("k", {"k": [x, y, z_, "in"]}, sysn, None)
            out[sysn + " vector"] = (list(v), [x * f("in"), y * f("in"), z_ * f("in")])
            a = H.import_value("k", {"k": [[x, y], [z_, x], ["-", "cm"]]}, sysn, None)
            out[sysn + " array with unit row"] = ([a[0, 0], a[0, 1], a[1, 0], a[1, 1]], [x, y * f("cm"), z_, x * f("cm")])
            out[sysn + " plain float"] = (H.import_value("k", {"k": x}, sysn, None), x)
            out[sysn + " default"] = (H.import_value("missing", {"k": x}, sysn, y), y)
        return out
    res = explore(run, max_paths=4)
    ck.add_paths(res)
    for p in res:
        if not p.ok:
            ck.inconc("import_value: %s %r %s" % (p.kind, p.exc, (p.tb or "")[-300:]))
            continue
        for lab, (got, want) in p.value.items():
            gl = got if isinstance(got, list) else [got]
            wl = want if isinstance(want, list) else [want]
            g = z3.And(*[zexpr(SR(a)) == zexpr(SR(b)) for a, b in zip(gl, wl)]) if len(gl) == len(wl) else z3.BoolVal(False)
            ck.add([Obligation("import_value %s == pre-converted" % lab, p.facts(), g, meta={"finding": mk})])
    ck.sample({"harness": "units", "units": sorted(EXACT_SI)})


def run_state(frame):
    import machupX as MX
    M = facade.M
    c = ctx()
    sc = MX.Scene({"units": "English", "scene": {"atmosphere": {"rho": 0.0023769, "V_wind": [sym("W0"), sym("W1"), sym("W2")]}}})
    sc.add_aircraft("p", family_G("g1"), state={"velocity": [100.0, 0.0, 5.0]})
    ap = sc._airplanes["p"]
    q = [sym("q%d" % i) for i in range(4)]
    c.declare_unit(q)
    u, v, w = sym("u"), sym("v"), sym("w")
    rates = [sym("r0"), sym("r1"), sym("r2")]
    Wv = [sym("W0"), sym("W1"), sym("W2")]
    # encoding B: body-fixed velocity vector (the stored velocity is Earth-relative; the equivalent air-relative description needs still air: W = 0 here)
    stB = {"velocity": [u, v, w], "orientation": q, "angular_rates": rates, "angular_rate_frame": frame}
    ap.set_state(**stB, v_wind=[0.0, 0.0, 0.0])
    B = {"v": list(ap.v), "w": list(ap.w), "q": list(ap.q)}
    # encoding A: airspeed, alpha, beta given by the documented relations
    V = M.sqrt(u ** 2 + v ** 2 + w ** 2)
    alpha = M.degrees(M.atan2(w, u))
    beta = M.degrees(M.asin(v / V))
    stA = {"velocity": V, "alpha": alpha, "beta": beta, "orientation": q, "angular_rates": rates, "angular_rate_frame": frame}
    ap.set_state(**stA, v_wind=[0.0, 0.0, 0.0])
    A = {"v": list(ap.v), "w": list(ap.w), "q": list(ap.q)}
    return {"A": A, "B": B}


def harness_state(ck, frame):
    res = explore(lambda: run_state(frame), assumptions=[z3.Real("u") > 0], max_paths=6)
    ck.add_paths(res)
    for p in res:
        lab = "state encodings (rates in %s axes) path%s" % (frame, "".join("1" if d else "0" for d in p.decisions))
        if not p.ok:
            ck.inconc("%s: %s %r %s" % (lab, p.kind, p.exc, (p.tb or "")[-400:]))
            continue
        A, B = p.value["A"], p.value["B"]
        base = list(p.ctx.assumptions) + list(p.ctx.pc)
        mk = lambda ob, frame=frame: Finding("state", {"frame": frame}, ob.label, ob.model)
        for k in ("w", "q"):
            g = z3.And(*[zexpr(SR(a)) == zexpr(SR(b)) for a, b in zip(A[k], B[k])])
            ck.add([Obligation("%s: stored %s equal" % (lab, {"w": "body rates", "q": "quaternion"}[k]), base + cone_defs(p.ctx, [g]), g, meta={"finding": mk})])
        ck.add([Obligation(lab + " canary", base, zexpr(SR(A["w"][0])) == zexpr(SR(B["w"][0])) + 1, canary=True)])
    ck.assume("the stored *velocity* of the (airspeed, alpha, beta) encoding equals that of the (u,v,w) encoding by the trigonometric round trip of set_aerodynamic_state "
              "(atan / asin / tan compositions); it is compared concretely in the replay and in Hints, not decided by the solver")


def harness_euler(ck):
    import machupX as MX
    from machupX.helpers import euler_to_quat

    def run():
        sc = MX.Scene({"units": "English", "scene": {"atmosphere": {"rho": 0.0023769}}})
        sc.add_aircraft("p", family_G("g1"), state={"velocity": [100.0, 0.0, 5.0]})
        ap = sc._airplanes["p"]
        E = [sym("phi"), sym("theta"), sym("psi")]
        ap.set_state(orientation=E, velocity=[sym("u"), sym("v"), sym("w")])
        qA, vA = list(ap.q), list(ap.v)
        qq = euler_to_quat(facade.NP.radians(wrap(np.array(E, dtype=object))))
        ap.set_state(orientation=[qq[0], qq[1], qq[2], qq[3]], velocity=[sym("u"), sym("v"), sym("w")])
        return {"qA": qA, "vA": vA, "qB": list(ap.q), "vB": list(ap.v)}
    res = explore(run, max_paths=3)
    ck.add_paths(res)
    for p in res:
        if not p.ok:
            ck.inconc("euler/quaternion: %s %r" % (p.kind, p.exc))
            continue
        v = p.value
        base = list(p.ctx.assumptions) + list(p.ctx.pc)
        mk = lambda ob: Finding("euler", {}, ob.label, ob.model)
        g = z3.And(*[zexpr(SR(a)) == zexpr(SR(b)) for a, b in zip(v["qA"] + v["vA"], v["qB"] + v["vB"])])
        ck.add([Obligation("Euler angles vs equivalent quaternion: stored quaternion and velocity equal", base + cone_defs(p.ctx, [g]), g, meta={"finding": mk})])


def harness_ints(ck):
    """integer-valued vs float-valued lists (JSON files produce ints): concrete differential run on the real code"""
    bad = []
    with AN.real_classes():
        import machupX as MX
        outs = []
        for st in ({"velocity": [100, 2, 8], "orientation": [5, 10, 20], "position": [10, -20, -1000], "angular_rates": [1, 0, 0]},
                   {"velocity": [100.0, 2.0, 8.0], "orientation": [5.0, 10.0, 20.0], "position": [10.0, -20.0, -1000.0], "angular_rates": [1.0, 0.0, 0.0]}):
            sc = MX.Scene({"units": "English", "scene": {"atmosphere": {"rho": 0.0023769}}})
            sc.add_aircraft("p", family_G("g1"), state=st)
            ap = sc._airplanes["p"]
            outs.append((np.array(ap.v, dtype=float), np.array(ap.w, dtype=float), np.array(ap.q, dtype=float), np.array(ap.p_bar, dtype=float)))
        for nm, a, b in zip(("velocity", "rates", "quaternion", "position"), outs[0], outs[1]):
            if not np.allclose(a, b, rtol=1e-12, atol=1e-12):
                bad.append("%s: ints give %s, floats give %s" % (nm, np.round(a, 6).tolist(), np.round(b, 6).tolist()))
    ck.add([Obligation("integer-valued state lists parse like float-valued ones: %s" % (bad[:1] if bad else "ok"), [], z3.BoolVal(not bad), meta={"finding": lambda ob: Finding("ints", {}, ob.label)})])


def harness_pos(ck):
    import machupX as MX
    AN.patch_classes()

    def run():
        AN.new_world()
        x, y, z_ = sym("x"), sym("y"), sym("z")
        out = {}
        for sysn, unit, f in (("English", "m", 3.28084), ("SI", "ft", 0.3048)):
            for via in ("add_aircraft", "set_aircraft_state"):
                res = []
                for pos in ([x, y, z_, unit], [x * f, y * f, z_ * f]):
                    sc = MX.Scene({"units": sysn, "scene": {"atmosphere": {"rho": 0.0023769 if sysn == "English" else 1.225}}})
                    try:
                        if via == "add_aircraft":
                            sc.add_aircraft("p", family_G("g1"), state={"velocity": [100.0, 0.0, 5.0], "position": pos})
                        else:
                            sc.add_aircraft("p", family_G("g1"), state={"velocity": [100.0, 0.0, 5.0]})
                            sc.set_aircraft_state({"velocity": [100.0, 0.0, 5.0], "position": pos})
                        res.append(("ok", list(sc._airplanes["p"].p_bar), [simp(zexpr(SR(t))) for t in np.asarray(sc._PC, dtype=object).reshape(-1)]))
                    except Exception as e:
                        res.append(("exc", type(e).__name__, None))
                out["%s/%s" % (sysn, via)] = res
        return out
    res = explore(run, max_paths=4)
    ck.add_paths(res)
    for p in res:
        if not p.ok:
            ck.inconc("position: %s %r" % (p.kind, p.exc))
            continue
        base = list(p.ctx.assumptions) + list(p.ctx.pc)
        for k, (a, b) in p.value.items():
            mk = lambda ob, k=k: Finding("position", {"case": k}, ob.label, ob.model)
            if a[0] != "ok" or b[0] != "ok":
                ck.add([Obligation("position with unit annotation vs pre-converted (%s): %s / %s" % (k, a[:2], b[:2]), [], z3.BoolVal(False), meta={"finding": mk})])
                continue
            g = z3.And(*[zexpr(SR(s)) == zexpr(SR(t)) for s, t in zip(a[1], b[1])] + [s == t for s, t in zip(a[2], b[2])])
            ck.add([Obligation("position with unit annotation vs pre-converted (%s): stored position and Earth-frame control points equal" % k, base, g, meta={"finding": mk})])


def harness_dist(ck):
    import machupX as MX

    def run():
        c0 = sym("c0")
        s_ = sym("s")
        out = {}
        for side in ("right", "left"):
            vals = []
            for enc in ("scalar", "array"):
                d = family_G("g1")
                d["wings"]["main"]["side"] = side
                d["wings"]["main"]["chord"] = c0 if enc == "scalar" else [[0.0, c0], [1.0, c0]]
                d["wings"]["main"]["twist"] = sym("t0") if enc == "scalar" else [[0.0, sym("t0")], [1.0, sym("t0")]]
                d["wings"]["main"]["dihedral"] = sym("d0") if enc == "scalar" else [[0.0, sym("d0")], [1.0, sym("d0")]]
                sc = MX.Scene({"units": "English", "scene": {"atmosphere": {"rho": 0.0023769}}})
                sc.add_aircraft("p", d, state={"velocity": [100.0, 0.0, 5.0]})
                seg = sc._airplanes["p"].wing_segments["main_" + side]
                vals.append([seg.get_chord(s_), seg.get_twist(s_), seg.get_dihedral(s_)] + list(np.asarray(seg.dS, dtype=object)) + list(np.asarray(seg.control_points, dtype=object).reshape(-1)))
            out[side] = vals
        return out
    sv = z3.Real("s")
    res = explore(run, assumptions=[sv >= 0, sv <= 1, z3.Real("c0") > 0], max_paths=12)
    ck.add_paths(res)
    for p in res:
        if not p.ok:
            ck.inconc("distribution encodings: %s %r %s" % (p.kind, p.exc, (p.tb or "")[-300:]))
            continue
        base = list(p.ctx.assumptions) + list(p.ctx.pc)
        for side, (a, b) in p.value.items():
            mk = lambda ob, side=side: Finding("dist", {"side": side}, ob.label, ob.model)
            g = z3.And(*[zexpr(SR(x)) == zexpr(SR(y)) for x, y in zip(a, b)]) if len(a) == len(b) else z3.BoolVal(False)
            ck.add([Obligation("scalar vs constant 2-row array (chord, twist, dihedral), %s side: getters at a symbolic span, section areas, control points equal" % side, base + cone_defs(p.ctx, [g]), g, meta={"finding": mk})])


# ---- replay -------------------------------------------------------------------------------------------------------
def replay_state(inp):
    bad = []
    with AN.real_classes():
        import machupX as MX
        rng = np.random.RandomState(9)
        for _ in range(3):
            u, v, w = rng.uniform(60, 120), rng.uniform(-25, 25), rng.uniform(-20, 30)
            V = np.sqrt(u * u + v * v + w * w)
            al, be = np.degrees(np.arctan2(w, u)), np.degrees(np.arcsin(v / V))
            q = rng.normal(size=4); q /= np.linalg.norm(q)
            rates = [0.8, -0.4, 0.6]
            st = []
            for enc in ({"velocity": [u, v, w]}, {"velocity": V, "alpha": al, "beta": be}):
                sc = MX.Scene({"units": "English", "scene": {"atmosphere": {"rho": 0.0023769}}})
                sc.add_aircraft("p", family_G("g1"), state=dict(enc, orientation=list(q), angular_rates=rates, angular_rate_frame=inp["frame"]))
                ap = sc._airplanes["p"]
                st.append((np.array(ap.v, dtype=float), np.array(ap.w, dtype=float), np.array(ap.q, dtype=float)))
            for nm, a, b in zip(("velocity", "body rates", "quaternion"), st[0], st[1]):
                if not np.allclose(a, b, rtol=1e-9, atol=1e-9):
                    bad.append("%s: (u,v,w) encoding %s, (V,alpha,beta) encoding %s" % (nm, np.round(a, 6).tolist(), np.round(b, 6).tolist()))
            if bad:
                break
    return {"reproduced": bool(bad), "key": "state encodings differ (%s axes): %s" % (inp["frame"], ",".join(sorted(set(b.split(":")[0] for b in bad)))), "observed": bad[:4], "what": "; ".join(bad[:2])}


def replay_simple(kind):
    def rp(inp):
        bad = []
        with AN.real_classes():
            import machupX as MX
            import machupX.helpers as H
            if kind == "position":
                for via in ("add_aircraft", "set_aircraft_state"):
                    try:
                        sc = MX.Scene({"units": "English", "scene": {"atmosphere": {"rho": 0.0023769}}})
                        if via == "add_aircraft":
                            sc.add_aircraft("p", family_G("g1"), state={"velocity": [100.0, 0.0, 5.0], "position": [10.0, 20.0, -300.0, "m"]})
                        else:
                            sc.add_aircraft("p", family_G("g1"), state={"velocity": [100.0, 0.0, 5.0]})
                            sc.set_aircraft_state({"velocity": [100.0, 0.0, 5.0], "position": [10.0, 20.0, -300.0, "m"]})
                        pb = np.array(sc._airplanes["p"].p_bar, dtype=float)
                        if not np.allclose(pb, np.array([10.0, 20.0, -300.0]) * 3.28084, rtol=1e-9):
                            bad.append("%s: position %s" % (via, pb.tolist()))
                        if not np.allclose(np.array(sc._PC, dtype=float)[0] - pb, np.array(sc._airplanes["p"].PC, dtype=float)[0], rtol=1e-9, atol=1e-9):
                            bad.append("%s: control points not at the converted position" % via)
                    except Exception as e:
                        bad.append("%s with position [x, y, z, 'm'] raises %r" % (via, e))
            elif kind == "ints":
                outs = []
                for st in ({"velocity": [100, 2, 8], "orientation": [5, 10, 20]}, {"velocity": [100.0, 2.0, 8.0], "orientation": [5.0, 10.0, 20.0]}):
                    sc = MX.Scene({"units": "English", "scene": {"atmosphere": {"rho": 0.0023769}}})
                    sc.add_aircraft("p", family_G("g1"), state=st)
                    outs.append(np.array(sc._airplanes["p"].v, dtype=float))
                if not np.allclose(outs[0], outs[1], rtol=1e-12):
                    bad.append("velocity [100, 2, 8] (ints) stored as %s, [100.0, 2.0, 8.0] as %s" % (outs[0].tolist(), np.round(outs[1], 6).tolist()))
            elif kind == "units":
                for unit, si in EXACT_SI.items():
                    if abs(float(H.convert_units(1.0, unit, "SI")) - si) > 1e-6 * si:
                        bad.append("unit %s -> SI" % unit)
                    if abs(float(H.convert_units(1.0, unit, "English")) - si / SI_PER_ENGLISH_DEFAULT[unit]) > 1e-6 * si / SI_PER_ENGLISH_DEFAULT[unit]:
                        bad.append("unit %s -> English" % unit)
                x = H.import_value("k", {"k": [[1.0, 2.0], [3.0, 4.0], ["-", "cm"]]}, "SI", None)
                if not np.allclose(x, [[1.0, 0.02], [3.0, 0.04]]):
                    bad.append("array with unit row")
            elif kind == "euler":
                from machupX.helpers import euler_to_quat
                sc = MX.Scene({"units": "English", "scene": {"atmosphere": {"rho": 0.0023769}}})
                sc.add_aircraft("p", family_G("g1"), state={"velocity": [100.0, 0.0, 5.0], "orientation": [12.0, -7.0, 40.0]})
                q1 = np.array(sc._airplanes["p"].q, dtype=float)
                sc.set_aircraft_state({"velocity": [100.0, 0.0, 5.0], "orientation": list(euler_to_quat(np.radians([12.0, -7.0, 40.0])))})
                if not np.allclose(q1, np.array(sc._airplanes["p"].q, dtype=float), rtol=1e-12):
                    bad.append("Euler vs quaternion orientation")
            elif kind == "dist":
                for side in ("right", "left"):
                    vals = []
                    for enc in ("scalar", "array"):
                        d = family_G("g1"); d["wings"]["main"]["side"] = side
                        d["wings"]["main"]["chord"] = 1.3 if enc == "scalar" else [[0.0, 1.3], [1.0, 1.3]]
                        d["wings"]["main"]["dihedral"] = 6.0 if enc == "scalar" else [[0.0, 6.0], [1.0, 6.0]]
                        sc = MX.Scene({"units": "English", "scene": {"atmosphere": {"rho": 0.0023769}}})
                        sc.add_aircraft("p", d, state={"velocity": [100.0, 0.0, 5.0]})
                        vals.append(np.array(sc._airplanes["p"].wing_segments["main_" + side].control_points, dtype=float))
                    if not np.allclose(vals[0], vals[1], rtol=1e-10, atol=1e-12):
                        bad.append("scalar vs array distribution, %s side" % side)
        return {"reproduced": bool(bad), "key": "%s: %s" % (kind, (bad[0][:70] if bad else "")), "observed": bad[:4], "what": "; ".join(bad[:3])}
    return rp


REPLAYS = {"state": replay_state, "position": replay_simple("position"), "ints": replay_simple("ints"), "units": replay_simple("units"), "euler": replay_simple("euler"), "dist": replay_simple("dist")}


def main(tier, seed, only=None):
    ck = Check("C06", tier, seed, REPLAYS)
    facade.install()
    import machupX.helpers as H, machupX.airplane as AP, machupX.scene as SC, machupX.wing_segment as WS
    ck.encoded(H.convert_units, H.import_value, AP.Airplane.set_state, SC.Scene.add_aircraft, SC.Scene.set_aircraft_state, WS.WingSegment._build_getter_linear_f_of_span, WS.WingSegment._initialize_getters)
    ck.assume("unit tables carry ~7 significant digits: compared with the exact definitions within 1e-6 relative", "still air for the (u,v,w) vs (V,alpha,beta) twin (the vector form is Earth-relative by the test suite's definition)",
              "reals, not floats (except the integer-input differential run, which is concrete on the real code)")
    ck.out_of_claim("callable distributions (opaque code)", "CSV files (numpy.genfromtxt)", "semispan+sweep+dihedral vs quarter-chord points and segment chains (geometry level: C12)",
                    "English vs SI descriptions of one scene beyond the unit tables and the atmosphere (C17)")
    tasks = []
    for name, fn in (("units", harness_units), ("euler", harness_euler), ("ints", harness_ints), ("pos", harness_pos), ("dist", harness_dist)):
        if not only or name in only:
            tasks.append((name, fn))
    if not only or "state" in only:
        for frame in ("body", "stab", "wind"):
            tasks.append(("state " + frame, lambda c, frame=frame: harness_state(c, frame)))
    run_parallel(ck, tasks)
    ck.bound(units="all 19 unit strings x 2 systems", encodings="scalar/vector/array unit annotations; three rate frames; Euler vs quaternion; int vs float; annotated position; scalar vs array distributions on both sides")
    ck.rung("rung 1 (parsed-state level)")
    return ck.finish()
