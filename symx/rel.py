"""symx.rel -- relational ("twin run") checking: atom alignment, cone-of-influence definitions, cut points."""
import time

import numpy as np
import z3

from . import smt
from .values import SR, SB, Ctx, ctx, zexpr, simp, PI_DEFS, PI, IPI


def vars_of(e, acc=None, seen=None):
    if acc is None:
        acc = {}
    if seen is None:
        seen = set()
    stack = [e]
    while stack:
        x = stack.pop()
        i = x.get_id()
        if i in seen:
            continue
        seen.add(i)
        if z3.is_const(x) and x.decl().kind() == z3.Z3_OP_UNINTERPRETED:
            acc[i] = x
        else:
            stack.extend(x.children())
    return acc


def cone_defs(c, exprs, extra_facts=()):
    """defining constraints of every atom in the cone of influence of exprs"""
    need = []
    seenv = set()
    acc = {}
    seen = set()
    for e in exprs:
        vars_of(e, acc, seen)
    work = list(acc.values())
    uses_pi = False
    while work:
        x = work.pop()
        i = x.get_id()
        if i in seenv:
            continue
        seenv.add(i)
        if i == PI.get_id() or i == IPI.get_id():
            uses_pi = True
        ent = c.defof.get(i)
        if ent is not None:
            d, args = ent
            need.extend(d)
            a2 = {}
            for e in list(args) + list(d):
                vars_of(e, a2)
            work.extend(a2.values())
    if uses_pi:
        need.extend(PI_DEFS)
    return need


# ---- alignment rules ---------------------------------------------------------------------------
def rule_equal(aa, ab, va, vb):
    """plain congruence: equal arguments => equal values"""
    yield z3.And(*[x == y for x, y in zip(aa, ab)]), va == vb


def make_scale_rules(scales):
    """homogeneity rules: for m in `scales` (z3 positive terms or python numbers):
       sqrt(m^2 a) = m sqrt(a); inv(m a) = inv(a)/m; atan2(m y, m x) = atan2(y, x)."""
    def rules(fname, aa, ab, va, vb):
        yield z3.And(*[x == y for x, y in zip(aa, ab)]), va == vb
        if fname == "sqrt":
            for m in scales:
                yield ab[0] == m * m * aa[0], vb == m * va
        elif fname == "inv":
            yield ab[0] == -aa[0], vb == -va
            for m in scales:
                yield ab[0] * m == aa[0], vb == m * va      # arg_B = arg_A / m
                yield ab[0] == m * aa[0], vb * m == va      # arg_B = m arg_A
        elif fname == "atan2":
            for m in scales:
                yield z3.And(ab[0] == m * aa[0], ab[1] == m * aa[1]), va == vb
        elif fname in ("sin", "tan", "atan", "asin"):
            yield ab[0] == -aa[0], vb == -va
        elif fname == "cos":
            yield ab[0] == -aa[0], vb == va
    return rules


def default_rules(fname, aa, ab, va, vb):
    yield z3.And(*[x == y for x, y in zip(aa, ab)]), va == vb
    if fname in ("sin", "tan", "atan", "asin", "inv"):
        yield ab[0] == -aa[0], vb == -va
    elif fname == "cos":
        yield ab[0] == -aa[0], vb == va


class Aligner:
    def __init__(self, c, facts=(), rules=default_rules, timeout_ms=5000, use_defs=True):
        self.c = c
        self.facts = list(facts)
        self.rules = rules
        self.timeout_ms = timeout_ms
        self.use_defs = use_defs
        self.aligned = 0
        self.unmatched = []
        self.queries = 0
        self._done = set()

    def _try(self, premise, extra=()):
        self.queries += 1
        p = z3.simplify(premise)
        if z3.is_true(p):
            return True
        if z3.is_false(p):
            return False
        return smt.entails(self.facts + list(extra), premise, self.timeout_ms)

    def pair(self, ea, eb):
        """try to relate atom event ea (run A) with eb (run B); returns True if a fact was added"""
        va, fa, aa = ea[0], ea[1], ea[2]
        vb, fb, ab = eb[0], eb[1], eb[2]
        if fa != fb or len(aa) != len(ab):
            return False
        if va.get_id() == vb.get_id():
            return True
        key = (va.get_id(), vb.get_id())
        if key in self._done:
            return True
        for premise, conclusion in self.rules(fa, aa, ab, va, vb):
            if self._try(premise):
                self.facts.append(conclusion)
                self._done.add(key)
                self.aligned += 1
                return True
        if self.use_defs:
            defs = cone_defs(self.c, list(aa) + list(ab))
            if defs:
                for premise, conclusion in self.rules(fa, aa, ab, va, vb):
                    if self._try(premise, defs):
                        self.facts.append(conclusion)
                        self._done.add(key)
                        self.aligned += 1
                        return True
        return False

    def lockstep(self, evA, evB):
        """event k of B corresponds to event k of A (same source, same path)"""
        if len(evA) != len(evB):
            self.unmatched.append(("length", len(evA), len(evB)))
        for ea, eb in zip(evA, evB):
            if not self.pair(ea, eb):
                self.unmatched.append((ea[1], self.c.where.get(ea[0].get_id()), str(eb[1])))
        return self

    def search(self, evA, evB, by_site=True):
        """for every distinct atom of A find a partner among the atoms of B (same function, same creation site)"""
        def distinct(evs):
            seen, out = set(), []
            for e in evs:
                if e[0].get_id() not in seen:
                    seen.add(e[0].get_id())
                    out.append(e)
            return out
        A, B = distinct(evA), distinct(evB)
        bid = set(e[0].get_id() for e in B)

        def sig(e):
            acc = {}
            for a in e[2]:
                vars_of(a, acc)
            return frozenset(acc.keys())
        bsig = {e[0].get_id(): sig(e) for e in B}
        for ea in A:
            if ea[0].get_id() in bid:
                continue
            site = self.c.where.get(ea[0].get_id())
            cands = [eb for eb in B if eb[1] == ea[1] and (not by_site or self.c.where.get(eb[0].get_id()) == site)]
            sa = sig(ea)
            same = [eb for eb in cands if bsig[eb[0].get_id()] == sa]
            if same:
                cands = same          # candidates mentioning exactly the same variables first (and only, when there are any)
            ok = False
            save = self.use_defs
            self.use_defs = False
            for eb in cands:
                if self.pair(ea, eb):
                    ok = True
                    break
            self.use_defs = save
            if not ok and save:
                for eb in cands:
                    if self.pair(ea, eb):
                        ok = True
                        break
            if not ok:
                self.unmatched.append((ea[1], site, [str(a)[:160] for a in ea[2]], [[str(a)[:160] for a in eb[2]] for eb in cands[:4]]))
        return self


# ---- cut points ----------------------------------------------------------------------------------
class Cut:
    """Intercepts `obj.<attr> = value` for chosen attributes (installed on a per-instance subclass, so the
    MachUpX source is untouched).  mode 'name': replace entries by fresh symbols and remember definitions;
    mode callable: called as f(attr, value) -> replacement value."""

    def __init__(self, obj, handlers):
        self.obj = obj
        self.handlers = handlers
        base = type(obj)
        cut = self

        def __setattr__(s, name, value):
            h = cut.handlers.get(name)
            if h is not None:
                value = h(name, value)
            base.__setattr__(s, name, value)
        self._base = base
        self._cls = type(base.__name__, (base,), {"__setattr__": __setattr__})
        obj.__class__ = self._cls

    def remove(self):
        self.obj.__class__ = self._base


def name_array(prefix, value, c=None, record=None):
    """replace every symbolic entry of an array by a fresh symbol; record (symbol, definition)"""
    c = c or ctx()
    arr = np.asarray(value, dtype=object)
    out = np.empty(arr.shape, dtype=object)
    from .facade import SA
    for idx in np.ndindex(arr.shape):
        v = arr[idx]
        if isinstance(v, SR) and v.c is None:
            s = z3.Real("%s_%s" % (prefix, "_".join(map(str, idx))))
            if record is not None:
                record.append((s, v.e))
            out[idx] = SR(s)
        else:
            out[idx] = v if isinstance(v, SR) else SR(v)
    return out.view(SA)
