"""symx.harness -- check driver: obligations -> verdicts -> replay -> VIOLATION / KNOWN-FINDING / INCONCLUSIVE, evidence."""
import hashlib
import inspect
import json
import os
import sys
import time
import traceback

from . import smt

ROOT = os.path.dirname(os.path.dirname(os.path.abspath(__file__)))
EVID = os.path.join(ROOT, "evidence")
KNOWN = os.path.join(ROOT, "known_findings.json")

EXIT_OK, EXIT_VIOLATION, EXIT_INCONCLUSIVE = 0, 1, 2


def load_known(pid):
    try:
        with open(KNOWN) as f:
            data = json.load(f)
    except FileNotFoundError:
        return [], []
    open_, fixed = [], []
    for ent in data.get("findings", []):
        if ent.get("property") != pid:
            continue
        (fixed if ent.get("status") == "fixed" else open_).append(ent)
    return open_, fixed


def src_hash(fn):
    try:
        src = inspect.getsource(fn)
    except (OSError, TypeError):
        return "?"
    return hashlib.sha1(src.encode()).hexdigest()[:12]


def qualname(fn):
    mod = getattr(fn, "__module__", "?")
    return "%s.%s" % (mod, getattr(fn, "__qualname__", getattr(fn, "__name__", repr(fn))))


class Finding:
    """A candidate violation with a concrete replay recipe."""
    def __init__(self, harness, inputs, label, model=None):
        self.harness = harness   # name of a function registered in the check module's REPLAYS
        self.inputs = inputs     # JSON-able
        self.label = label
        self.model = model


class Check:
    def __init__(self, pid, tier="quick", seed=0, replays=None, title=""):
        self.pid = pid
        self.tier = tier
        self.seed = seed
        self.title = title
        self.replays = replays or {}
        self.t0 = time.time()
        self.functions = {}
        self.bounds = {}
        self.assumptions = []
        self.outside = []
        self.stubs = []
        self.obligs = []
        self.samples = []
        self.paths = 0
        self.infeasible_paths = 0
        self.atoms = 0
        self.aligned = 0
        self.rungs = []
        self.inconclusive = []
        self.findings = []       # Finding objects to replay
        self.harness_notes = []
        self.facade_checks = 0
        self.known_open, self.known_fixed = load_known(pid)
        self.known_hit = set()
        self.violations = []
        self.solver_timeout_ms = int(os.environ.get("SYMX_TIMEOUT_MS", "30000"))

    # ---- bookkeeping -----------------------------------------------------------------------
    def encoded(self, *fns):
        for fn in fns:
            self.functions[qualname(fn)] = src_hash(fn)

    def bound(self, **kw):
        self.bounds.update(kw)

    def assume(self, *texts):
        for t in texts:
            if t not in self.assumptions:
                self.assumptions.append(t)

    def stub(self, *texts):
        for t in texts:
            if t not in self.stubs:
                self.stubs.append(t)

    def out_of_claim(self, *texts):
        for t in texts:
            if t not in self.outside:
                self.outside.append(t)

    def rung(self, name):
        if name not in self.rungs:
            self.rungs.append(name)

    def note(self, t):
        self.harness_notes.append(t)

    def add(self, obligs):
        self.obligs.extend(obligs)

    def add_paths(self, res):
        self.paths += len(res)
        self.infeasible_paths += getattr(res, "infeasible", 0)
        if getattr(res, "hit_bound", False):
            self.inconclusive.append("path bound hit")
        for p in res:
            self.atoms += len(p.ctx.atoms)

    def sample(self, obj):
        if len(self.samples) < 8:
            self.samples.append(obj)

    def inconc(self, why):
        self.inconclusive.append(why)

    def candidate(self, finding):
        self.findings.append(finding)

    # ---- verdicts --------------------------------------------------------------------------
    def discharge(self, timeout_ms=None, parallel=True):
        """obligations are discharged in chunks; as soon as a counterexample of a chunk has been reproduced on the real code the verdict is
        VIOLATION and the remaining obligations are not sent to the solvers (on a tree where the property holds every chunk is processed)"""
        pending = [o for o in self.obligs if o.status is None and not isinstance(o, _Stub)]
        # probe: a few obligations under a short time limit.  A refuted / undecided one is handed to its replay recipe; if the real code
        # reproduces it the verdict is VIOLATION at once.  Otherwise the probe leaves no trace and everything is discharged normally.
        probe = [o for o in pending if not o.canary and not o.witness and (o.meta.get("finding") or o.meta.get("fallback"))][:12]
        if len(pending) > 24 and probe and not os.environ.get("SYMX_NOPROBE"):
            smt.discharge(probe, 6000, parallel=parallel, portfolio=getattr(self, "portfolio", None) or smt.PORTFOLIO)
            n_inc, n_find, n_rep = len(self.inconclusive), len(self.findings), getattr(self, "_replayed", 0)
            for ob in probe:
                if ob.status != "unsat":
                    try:
                        f = (ob.meta.get("finding") if ob.status == "sat" else (ob.meta.get("fallback") or ob.meta.get("finding")))(ob)
                    except Exception:
                        f = None
                    if f is not None:
                        self.candidate(f)
            self._replayed = n_find
            self.replay_all()
            if self.violations:
                for ob in pending:
                    if ob.status is None:
                        ob.status = "skipped"
                self.note("probe: a counterexample was reproduced on the real code; %d obligations not sent to the solvers" % sum(1 for o in pending if o.status == "skipped"))
                return
            del self.inconclusive[n_inc:]
            del self.findings[n_find:]
            self._replayed = n_rep
            for ob in probe:
                if ob.status != "unsat":
                    ob.status, ob.model = None, None
            pending = [o for o in pending if o.status is None]
        chunk = int(os.environ.get("SYMX_CHUNK", "16"))      # first chunk small (a broken tree is recognised quickly), then doubling
        i = 0
        while i < len(pending):
            part = pending[i:i + chunk]
            i += chunk
            chunk *= 2
            self._discharge_part(part, timeout_ms, parallel)
            if len(pending) > i and len(self.findings) > getattr(self, "_replayed", 0):
                self.replay_all()
                if self.violations:
                    rest = pending[i:]
                    for ob in rest:
                        ob.status = "skipped"
                    self.note("%d obligations not sent to the solvers: a counterexample had already been reproduced on the real code" % len(rest))
                    break

    def _discharge_part(self, pending, timeout_ms=None, parallel=True):
        smt.discharge(pending, timeout_ms or self.solver_timeout_ms, parallel=parallel, portfolio=getattr(self, "portfolio", None) or smt.PORTFOLIO)
        if os.environ.get("SYMX_VERBOSE"):
            for ob in pending:
                if ob.secs > 3:
                    print("  slow: %6.1fs %-8s %-10s %s" % (ob.secs, ob.status, ob.solver, ob.label))
        for ob in pending:
            if ob.canary:
                if ob.status != "sat":
                    self.inconc("canary %s came back %s (facts inconsistent or solver gave up)" % (ob.label, ob.status))
            elif ob.witness:
                if ob.status != "sat":
                    self.inconc("reachability witness %s came back %s" % (ob.label, ob.status))
            elif ob.status == "sat":
                mk = ob.meta.get("finding")
                if mk is None:
                    self.inconc("obligation %s refuted but no replay recipe" % ob.label)
                else:
                    try:
                        f = mk(ob)
                    except Exception as e:
                        self.inconc("building replay for %s failed: %r" % (ob.label, e))
                        continue
                    if f is not None:
                        self.candidate(f)
            elif ob.status != "unsat":
                # the solver could neither prove nor refute: fall back to the replay recipe (which pushes concrete points of the
                # validity box through the real code); this can turn an INCONCLUSIVE into a VIOLATION, never into a pass
                fb = ob.meta.get("fallback") or ob.meta.get("finding")
                if fb is not None:
                    try:
                        f = fb(ob)
                    except Exception as e:
                        f = None
                        self.note("fallback for %s failed: %r" % (ob.label, e))
                    if f is not None:
                        f.label = f.label + " [solver: %s]" % ob.status
                        self.candidate(f)
                        continue
                try:
                    d = os.path.join(EVID, "obligations", self.pid)
                    os.makedirs(d, exist_ok=True)
                    with open(os.path.join(d, "unknown_%d.smt2" % len(self.inconclusive)), "w") as fh:
                        fh.write("; %s\n" % ob.label + ob.smt2())
                except Exception:
                    pass
                self.inconc("obligation %s: %s from all solvers (%.1fs) %s" % (ob.label, ob.status, ob.secs, (ob.model or {}).get("error", "") if isinstance(ob.model, dict) else ""))

    def _known(self, key):
        for ent in self.known_open:
            if ent.get("key") == key:
                return ent
        return None

    def replay_all(self):
        os.makedirs(os.path.join(EVID, "replay"), exist_ok=True)
        seen = self.__dict__.setdefault("_seen_keys", set())
        cache = self.__dict__.setdefault("_replay_cache", {})
        start = getattr(self, "_replayed", 0)
        self._replayed = len(self.findings)
        for f in self.findings[start:]:
            fn = self.replays.get(f.harness)
            if fn is None:
                self.inconc("no replay function %s" % f.harness)
                continue
            try:
                ck_ = f.harness + json.dumps({k: v for k, v in f.inputs.items() if k != "what"}, sort_keys=True, default=str) if isinstance(f.inputs, dict) else None
                if ck_ is not None and ck_ in cache:
                    res = cache[ck_]
                else:
                    res = fn(f.inputs)
                    if ck_ is not None:
                        cache[ck_] = res
            except Exception as e:
                self.inconc("replay %s crashed: %r" % (f.harness, e))
                self.note(traceback.format_exc())
                continue
            if not res.get("reproduced"):
                self.inconc("counterexample for %s did not reproduce on the real code (%s)" % (f.label, res.get("why", "")))
                continue
            key = res.get("key", f.label)
            if key in seen:
                continue
            seen.add(key)
            ent = self._known(key)
            if ent is not None:
                self.known_hit.add(key)
                print("KNOWN-FINDING: property=%s %s" % (self.pid, ent.get("what", key)))
                continue
            path = os.path.join(EVID, "replay", "%s_%s%d.json" % (self.pid, getattr(self, "_tag", ""), len(self.violations)))
            with open(path, "w") as fh:
                json.dump({"property": self.pid, "harness": f.harness, "inputs": f.inputs, "label": f.label,
                           "key": key, "observed": res.get("observed"), "what": res.get("what")}, fh, indent=1, default=str)
            self.violations.append((key, path, res.get("what", "")))

    def finish(self):
        self.discharge()
        self.replay_all()
        wall = time.time() - self.t0
        real = [o for o in self.obligs if not o.canary and not o.witness]
        nontrivial = [o for o in real if not o.meta.get("trivial")]
        labels = set(o.label for o in nontrivial)
        cov = {
            "explanation": "bounded symbolic execution of the real MachUpX code (concolic reals through the unmodified "
                           "source, numpy included); obligations decided by SMT (z3 / cvc5) for every real value of the "
                           "symbolic inputs within the stated bounds; counterexamples replayed on the real code",
            "evaluations": smt.STATS["queries"],
            "distinct_nontrivial": len(labels),
            "rule": "evaluations = solver queries issued (feasibility, alignment, obligations); distinct_nontrivial = "
                    "distinctly labelled obligations whose negation is not reduced to false by z3's simplifier alone",
            "obligations": len(real),
            "discharged": sum(1 for o in real if o.status == "unsat"),
            "canaries": sum(1 for o in self.obligs if o.canary),
            "canaries_caught": sum(1 for o in self.obligs if o.canary and o.status == "sat"),
            "reachability_witnesses": sum(1 for o in self.obligs if o.witness),
            "reachability_sat": sum(1 for o in self.obligs if o.witness and o.status == "sat"),
            "paths_explored": self.paths,
            "paths_infeasible_dropped": self.infeasible_paths,
            "atoms": self.atoms,
            "atoms_aligned": self.aligned,
            "functions_encoded": self.functions,
            "bounds": self.bounds,
            "stubs": self.stubs,
            "outside_the_claim": self.outside,
            "rungs_run": self.rungs,
            "solver": {k: v for k, v in smt.STATS.items()},
            "solver_time_s": round(smt.STATS["solver_s"], 3),
            "facade_differential_checks": self.facade_checks,
            "known_findings_hit": sorted(self.known_hit),
            "inconclusive": self.inconclusive[:20],
            "notes": self.harness_notes[:20],
            "samples": self.samples or [{"note": "no sample recorded"}],
            "checker_cmd": "./check %s --tier %s" % (self.pid, self.tier),
            "trusted_base": ["symx facade (numpy/scipy stand-ins, validated by concrete differential runs)", "z3 5.1.0 / z3 4.8.12 / cvc5",
                             "reference models written in checks/%s.py" % self.pid, "numpy, scipy, airfoil_db"],
        }
        ev = {
            "property_id": self.pid, "tier": self.tier if self.tier in ("quick", "thorough") else "quick", "seed": int(self.seed),
            "level": "other", "coverage": cov, "assumptions": self.assumptions, "wall_s": round(wall, 2),
            "violations": len(self.violations),
        }
        os.makedirs(EVID, exist_ok=True)
        with open(os.path.join(EVID, "%s.json" % self.pid), "w") as fh:
            json.dump(ev, fh, indent=1, default=str)
        smt.shutdown()
        print("%s tier=%s obligations=%d discharged=%d canaries=%d/%d witnesses=%d/%d paths=%d queries=%d solver_s=%.1f wall_s=%.1f"
              % (self.pid, self.tier, cov["obligations"], cov["discharged"], cov["canaries_caught"], cov["canaries"],
                 cov["reachability_sat"], cov["reachability_witnesses"], self.paths, smt.STATS["queries"], smt.STATS["solver_s"], wall))
        if self.violations:
            for key, path, what in self.violations:
                print("VIOLATION property=%s replay=%s" % (self.pid, path))
                print("  what: %s" % what)
            return EXIT_VIOLATION
        if self.inconclusive:
            for w in self.inconclusive[:20]:
                print("INCONCLUSIVE %s: %s" % (self.pid, w))
            return EXIT_INCONCLUSIVE
        return EXIT_OK


def run_replay(pid, replays, path):
    with open(path) as fh:
        d = json.load(fh)
    fn = replays[d["harness"]]
    res = fn(d["inputs"])
    print(json.dumps(res, indent=1, default=str))
    if res.get("reproduced"):
        print("VIOLATION property=%s replay=%s" % (pid, path))
        return EXIT_VIOLATION
    return EXIT_OK


# ---- running independent harnesses in parallel child processes ---------------------------------------------------
def _child_summary(ck):
    obs = []
    for o in ck.obligs:
        obs.append({"label": o.label, "status": o.status, "secs": o.secs, "solver": o.solver, "canary": o.canary, "witness": o.witness,
                    "trivial": bool(o.meta.get("trivial"))})
    return {"obligs": obs, "inconclusive": ck.inconclusive, "violations": ck.violations, "known_hit": sorted(ck.known_hit), "samples": ck.samples,
            "functions": ck.functions, "bounds": ck.bounds, "assumptions": ck.assumptions, "stubs": ck.stubs, "outside": ck.outside, "rungs": ck.rungs,
            "notes": ck.harness_notes, "paths": ck.paths, "infeasible": ck.infeasible_paths, "atoms": ck.atoms, "aligned": ck.aligned,
            "facade_checks": ck.facade_checks, "stats": smt.STATS, "printed": getattr(ck, "_printed", [])}


class _Stub:
    """obligation record re-created in the parent from a child's summary"""
    def __init__(self, d):
        self.label, self.status, self.secs, self.solver = d["label"], d["status"], d["secs"], d["solver"]
        self.canary, self.witness = d["canary"], d["witness"]
        self.meta = {"trivial": d["trivial"]}
        self.model = None


def run_parallel(ck, tasks, jobs=None):
    """tasks: list of (name, fn(child_check)).  Each runs in a forked child with its own Check; verdicts are merged."""
    import multiprocessing as mp
    jobs = jobs or int(os.environ.get("SYMX_JOBS", min(16, os.cpu_count() or 4)))
    if os.environ.get("SYMX_SERIAL") or len(tasks) <= 1:
        for name, fn in tasks:
            fn(ck)
        return
    ctxm = mp.get_context("fork")
    pending = list(enumerate(tasks))
    running = {}
    results = {}
    retried = set()

    def child(idx, name, fn, conn):
        try:
            smt._POOL = None
            for k in ("queries", "unsat", "sat", "unknown", "errors"):
                smt.STATS[k] = 0
            smt.STATS["solver_s"] = 0.0
            smt.STATS["by_solver"] = {}
            c = Check(ck.pid, ck.tier, ck.seed, ck.replays)
            c.solver_timeout_ms = ck.solver_timeout_ms
            c.portfolio = getattr(ck, "portfolio", None)
            c._tag = "t%d" % idx
            try:
                fn(c)
                os.environ["SYMX_JOBS"] = str(max(2, min(6, 32 // max(1, len(tasks)))))
                c.discharge(parallel=True)
                smt.shutdown()
                c.replay_all()
            except BaseException as e:
                c.inconc("harness %s crashed: %r %s" % (name, e, traceback.format_exc()[-800:]))
            conn.send(_child_summary(c))
        except BaseException as e:
            try:
                conn.send({"crash": repr(e)})
            except Exception:
                pass
        finally:
            conn.close()
            try:
                smt.shutdown()
            except BaseException:
                pass
            os._exit(0)

    while pending or running:
        while pending and len(running) < jobs:
            idx, (name, fn) = pending.pop(0)
            pc, cc = ctxm.Pipe(duplex=False)
            pr = ctxm.Process(target=child, args=(idx, name, fn, cc))
            pr.start()
            cc.close()
            running[idx] = (pr, pc, name)
        done = []
        for idx, (pr, pc, name) in running.items():
            if pc.poll(0.05):
                try:
                    results[idx] = pc.recv()
                except EOFError:
                    results[idx] = {"crash": "no result from child %s" % name}
                done.append(idx)
            elif not pr.is_alive():
                results[idx] = {"crash": "child %s died" % name}
                done.append(idx)
        for idx in done:
            pr, pc, name = running.pop(idx)
            pr.join(5)
            r = results.get(idx)
            if isinstance(r, dict) and "crash" in r and ("no result from child" in r["crash"] or "died" in r["crash"]) and idx not in retried:
                retried.add(idx)                       # a child that vanished without a verdict (e.g. a solver library crash) is run once more
                del results[idx]
                pending.append((idx, tasks[idx]))
        if any(isinstance(results.get(i), dict) and results[i].get("violations") for i in done) and (running or pending):
            # a harness has reproduced a counterexample on the real code: the verdict is VIOLATION; the other harnesses are stopped
            for idx, (pr, pc, name) in list(running.items()):
                try:
                    pr.terminate()
                    pr.join(2)
                    if pr.is_alive():
                        pr.kill()
                except Exception:
                    pass
                results[idx] = {"stopped": name}
            for idx, (name, fn) in pending:
                results[idx] = {"stopped": name}
            running.clear()
            pending[:] = []
    for idx in sorted(results):
        r = results[idx]
        name = tasks[idx][0]
        if "stopped" in r:
            ck.note("harness %s stopped: another harness had already reproduced a violation on the real code" % name)
            continue
        if "crash" in r:
            ck.inconc("harness %s: %s" % (name, r["crash"]))
            continue
        ck.obligs.extend(_Stub(d) for d in r["obligs"])
        ck.inconclusive.extend(r["inconclusive"])
        for v in r["violations"]:
            ck.violations.append(tuple(v))
        ck.known_hit.update(r["known_hit"])
        for s_ in r["samples"]:
            ck.sample(s_)
        ck.functions.update(r["functions"])
        ck.bounds.update(r["bounds"])
        for lst, key in ((ck.assumptions, "assumptions"), (ck.stubs, "stubs"), (ck.outside, "outside"), (ck.rungs, "rungs")):
            for t in r[key]:
                if t not in lst:
                    lst.append(t)
        ck.harness_notes.extend(r["notes"][:5])
        ck.paths += r["paths"]
        ck.infeasible_paths += r["infeasible"]
        ck.atoms += r["atoms"]
        ck.aligned += r["aligned"]
        ck.facade_checks += r["facade_checks"]
        st = r["stats"]
        for k in ("queries", "unsat", "sat", "unknown", "errors"):
            smt.STATS[k] = smt.STATS.get(k, 0) + st.get(k, 0)
        smt.STATS["solver_s"] += st.get("solver_s", 0.0)
        for sv, d in st.get("by_solver", {}).items():
            e = smt.STATS["by_solver"].setdefault(sv, {"n": 0, "s": 0.0})
            e["n"] += d["n"]
            e["s"] += d["s"]
        for line in r.get("printed", []):
            print(line)
