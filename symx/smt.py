"""symx.smt -- obligations, SMT-LIB2 emission, solver portfolio (z3 5.1 API -> /usr/bin/z3 4.8.12 -> cvc5), pool."""
import concurrent.futures as cf
import multiprocessing as mp
import os
import re
import subprocess
import tempfile
import time

import z3

STATS = {"queries": 0, "unsat": 0, "sat": 0, "unknown": 0, "solver_s": 0.0,
         "by_solver": {}, "errors": 0}


def _count(status, solver, dt):
    STATS["queries"] += 1
    STATS[status] = STATS.get(status, 0) + 1
    STATS["solver_s"] += dt
    d = STATS["by_solver"].setdefault(solver, {"n": 0, "s": 0.0})
    d["n"] += 1
    d["s"] += dt


class Obligation:
    """facts |= goal  (decided as unsat(facts & not goal))"""
    __slots__ = ("label", "facts", "goal", "meta", "status", "model", "secs", "solver", "canary", "witness")

    def __init__(self, label, facts, goal, meta=None, canary=False, witness=False):
        self.label = label
        self.facts = list(facts)
        self.goal = goal
        self.meta = meta or {}
        self.status = None
        self.model = None
        self.secs = 0.0
        self.solver = None
        self.canary = canary       # deliberately false: must come back sat
        self.witness = witness     # reachability: facts & goal must be sat (goal not negated)

    def smt2(self):
        s = z3.Solver()
        s.add(*self.facts)
        s.add(self.goal if self.witness else z3.Not(self.goal))
        return s.to_smt2()

    def trivial(self):
        g = z3.simplify(self.goal)
        return z3.is_true(g) if not self.witness else False

    @property
    def ok(self):
        if self.canary or self.witness:
            return self.status == "sat"
        return self.status == "unsat"


def _model_dict(m):
    out = {}
    for d in m.decls():
        v = m[d]
        try:
            if z3.is_rational_value(v):
                out[d.name()] = "%d/%d" % (v.numerator_as_long(), v.denominator_as_long())
            elif z3.is_algebraic_value(v):
                out[d.name()] = v.approx(20).as_decimal(20).rstrip("?")
            else:
                out[d.name()] = str(v)
        except Exception:
            out[d.name()] = str(v)
    return out


def _solve_api(txt, timeout_ms, want_model, seed=0):
    c = z3.Context()
    s = z3.Solver(ctx=c)
    s.set("timeout", int(timeout_ms))
    s.set("random_seed", seed)
    t0 = time.time()
    try:
        s.from_string(txt)
        r = s.check()
    except z3.Z3Exception as e:
        return "unknown", {"error": str(e)}, time.time() - t0
    dt = time.time() - t0
    st = str(r)
    model = None
    if st == "sat" and want_model:
        model = _model_dict(s.model())
    return st, model, dt


_MODEL_RE = re.compile(r"\(define-fun\s+(\S+)\s+\(\)\s+Real\s+(.*?)\)\s*(?=\(define-fun|\)\s*$)", re.S)


def _parse_model_text(out):
    res = {}
    for m in _MODEL_RE.finditer(out):
        name, val = m.group(1), " ".join(m.group(2).split())
        res[name.strip("|")] = val
    return res


def _solve_bin(binary, txt, timeout_ms, want_model):
    t0 = time.time()
    with tempfile.NamedTemporaryFile("w", suffix=".smt2", delete=False, dir=os.environ.get("SYMX_TMP", None)) as f:
        if binary == "cvc5":
            f.write("(set-logic ALL)\n")
        f.write(txt)
        path = f.name
    try:
        if binary == "cvc5":
            cmd = ["cvc5", "--tlimit=%d" % int(timeout_ms)] + (["--dump-models"] if want_model else []) + [path]
        else:
            cmd = [binary, "-T:%d" % max(1, int(timeout_ms / 1000))] + (["-model"] if want_model else []) + [path]
        try:
            p = subprocess.run(cmd, capture_output=True, text=True, timeout=timeout_ms / 1000 + 10)
            out = p.stdout
        except subprocess.TimeoutExpired:
            out = "unknown"
    finally:
        try:
            os.unlink(path)
        except OSError:
            pass
    dt = time.time() - t0
    first = out.strip().split("\n")[0].strip() if out.strip() else "unknown"
    if "(error" in out and first not in ("sat", "unsat"):
        return "unknown", {"error": out[:300]}, dt
    if "(error" in out and first == "unsat":
        # an old z3 can drop an assertion it cannot parse and still answer: inconclusive
        return "unknown", {"error": out[:300]}, dt
    if first == "sat":
        return "sat", (_parse_model_text(out) if want_model else None), dt
    if first == "unsat":
        return "unsat", None, dt
    return "unknown", None, dt


# (solver, fraction of the budget): a short in-process attempt first, then the old z3 binary (often faster on polynomial
# identities), then the in-process solver with the full budget, then cvc5
PORTFOLIO = (("z3api", 0.15), ("/usr/bin/z3", 1.0), ("z3api", 1.0), ("cvc5", 1.0))


def solve_text(txt, timeout_ms=20000, want_model=True, portfolio=PORTFOLIO):
    """first definite answer wins; returns (status, model, solver, secs)"""
    total = 0.0
    last = ("unknown", None, None)
    for ent in portfolio:
        sv, frac_ = ent if isinstance(ent, tuple) else (ent, 1.0)
        to = max(1000, int(timeout_ms * frac_))
        if sv == "z3api":
            st, model, dt = _solve_api(txt, to, want_model)
        else:
            st, model, dt = _solve_bin(sv, txt, to, want_model)
        total += dt
        if st in ("sat", "unsat"):
            return st, model, sv, total
        last = (st, model, sv)
    return "unknown", last[1], "all", total


def _worker(args):
    txt, timeout_ms, want_model, portfolio = args
    return solve_text(txt, timeout_ms, want_model, portfolio)


_POOL = None


def _init_worker():
    """pool workers must never outlive the check or hold its output open: die with the parent, write nowhere"""
    try:
        import ctypes
        import signal
        ctypes.CDLL("libc.so.6", use_errno=True).prctl(1, signal.SIGKILL)      # PR_SET_PDEATHSIG
    except Exception:
        pass
    try:
        fd = os.open(os.devnull, os.O_WRONLY)
        os.dup2(fd, 1)
        os.dup2(fd, 2)
        os.close(fd)
    except Exception:
        pass


def pool(jobs=None):
    global _POOL
    if _POOL is None:
        jobs = jobs or int(os.environ.get("SYMX_JOBS", min(16, os.cpu_count() or 4)))
        _POOL = cf.ProcessPoolExecutor(max_workers=jobs, mp_context=mp.get_context("fork"), initializer=_init_worker)
    return _POOL


def shutdown():
    """terminate the worker processes (orphaned workers would keep stdout open and make callers hang)"""
    global _POOL
    if _POOL is not None:
        procs = list(getattr(_POOL, "_processes", {}).values())
        try:
            _POOL.shutdown(wait=False, cancel_futures=True)
        except Exception:
            pass
        for p in procs:
            try:
                p.terminate()
            except Exception:
                pass
        for p in procs:
            try:
                p.join(2)
                if p.is_alive():
                    p.kill()
            except Exception:
                pass
        _POOL = None


def discharge(obligs, timeout_ms=20000, parallel=True, portfolio=PORTFOLIO, want_model=True):
    """Decide every obligation; fills status / model / secs / solver."""
    todo = []
    for ob in obligs:
        if ob.status is not None:
            continue
        if not ob.witness and not ob.canary and ob.trivial():
            ob.status, ob.solver, ob.secs = "unsat", "simplifier", 0.0
            ob.meta["trivial"] = True
            continue
        todo.append(ob)
    if not todo:
        return obligs
    if parallel and len(todo) > 1:
        ex = pool()
        futs = [ex.submit(_worker, (ob.smt2(), timeout_ms, want_model, portfolio)) for ob in todo]
        for ob, fu in zip(todo, futs):
            try:
                st, model, sv, dt = fu.result()
            except Exception as e:  # worker crashed: inconclusive
                st, model, sv, dt = "unknown", {"error": repr(e)}, "pool", 0.0
            ob.status, ob.model, ob.solver, ob.secs = st, model, sv, dt
            _count(st, sv, dt)
    else:
        for ob in todo:
            st, model, sv, dt = solve_text(ob.smt2(), timeout_ms, want_model, portfolio)
            ob.status, ob.model, ob.solver, ob.secs = st, model, sv, dt
            _count(st, sv, dt)
    return obligs


# ---- quick in-process helpers (alignment, feasibility) --------------------------------------
def check(constraints, timeout_ms=10000):
    s = z3.Solver()
    s.set("timeout", int(timeout_ms))
    s.add(*constraints)
    t0 = time.time()
    r = s.check()
    dt = time.time() - t0
    _count(str(r), "z3api-inproc", dt)
    return str(r), (s.model() if str(r) == "sat" else None)


def entails(facts, goal, timeout_ms=10000):
    """True iff facts |= goal is proven (unsat of the negation)."""
    g = z3.simplify(goal)
    if z3.is_true(g):
        return True
    r, _ = check(list(facts) + [z3.Not(goal)], timeout_ms)
    return r == "unsat"


def frac(s):
    """model value string -> float"""
    import fractions
    s = s.strip()
    if s.startswith("(") and s.endswith(")"):
        toks = s[1:-1].split()
        # (- x) | (/ a b) | (- (/ a b))
        inner = s[1:-1].strip()
        if inner.startswith("-"):
            return -frac(inner[1:].strip())
        if inner.startswith("/"):
            rest = inner[1:].strip()
            # split two operands
            parts = _split_sexpr(rest)
            return frac(parts[0]) / frac(parts[1])
    if "/" in s:
        a, b = s.split("/")
        return float(fractions.Fraction(int(a), int(b)))
    return float(s.rstrip("?"))


def _split_sexpr(s):
    parts, depth, cur = [], 0, ""
    for ch in s:
        if ch == "(":
            depth += 1
        if ch == ")":
            depth -= 1
        if ch.isspace() and depth == 0:
            if cur:
                parts.append(cur); cur = ""
        else:
            cur += ch
    if cur:
        parts.append(cur)
    return parts
