"""symx.facade -- numpy / math / scipy stand-ins injected into the machupX modules at run time.

The stand-ins delegate everything to the real library unless a symbolic value (SR/SB, or an object
array holding them) is involved; for those they provide exact symbolic versions of the functions that
numpy / scipy implement in C for floats.
"""
import builtins
import math as _m

import numpy as _np
import z3

from .values import SR, SB, ctx, zexpr, conc, is_sym, simp, Concretised, exact

_float = builtins.float


# ----------------------------------------------------------------------------------------------
# object arrays of SR
class SA(_np.ndarray):
    """object ndarray whose elements are SR / SB; rich comparisons give arrays of SB (no forks)."""

    def __array_finalize__(self, obj):
        pass

    def _cmpop(self, o, name):
        a = self
        if isinstance(o, (list, tuple)):
            o = _np.asarray(o, dtype=object)
        if isinstance(o, _np.ndarray):
            a, o = _np.broadcast_arrays(_np.asarray(a, dtype=object), _np.asarray(o, dtype=object))
            out = _np.empty(a.shape, dtype=object)
            for idx in _np.ndindex(a.shape):
                out[idx] = getattr(_sr(a[idx]), name)(_sc(o[idx]))
        else:
            out = _np.empty(a.shape, dtype=object)
            b = _np.asarray(a, dtype=object)
            for idx in _np.ndindex(a.shape):
                out[idx] = getattr(_sr(b[idx]), name)(o)
        return _boolarr(out)

    def __lt__(self, o): return self._cmpop(o, "__lt__")
    def __le__(self, o): return self._cmpop(o, "__le__")
    def __gt__(self, o): return self._cmpop(o, "__gt__")
    def __ge__(self, o): return self._cmpop(o, "__ge__")
    def __eq__(self, o): return self._cmpop(o, "__eq__")
    def __ne__(self, o): return self._cmpop(o, "__ne__")
    __hash__ = None

    def any(self, *a, **k):
        if self.size and all(isinstance(v, (SB, bool, _np.bool_)) for v in self.flat) and not a and not k:
            return _any(list(self.flat))
        return _np.ndarray.any(self, *a, **k)

    def all(self, *a, **k):
        if self.size and all(isinstance(v, (SB, bool, _np.bool_)) for v in self.flat) and not a and not k:
            return _all(list(self.flat))
        return _np.ndarray.all(self, *a, **k)

    def __and__(self, o): return _elementwise2(self, o, lambda x, y: _sb(x) & _sb(y))
    def __rand__(self, o): return _elementwise2(o, self, lambda x, y: _sb(x) & _sb(y))
    def __or__(self, o): return _elementwise2(self, o, lambda x, y: _sb(x) | _sb(y))
    def __ror__(self, o): return _elementwise2(o, self, lambda x, y: _sb(x) | _sb(y))
    def __invert__(self): return _elementwise1(self, lambda x: ~_sb(x))

    def astype(self, dtype, *a, **k):
        if dtype in (int, bool, _np.bool_, _np.int64) and self.size and any(isinstance(v, SB) for v in self.flat):
            out = _np.empty(self.shape, dtype=dtype)
            for idx in _np.ndindex(self.shape):
                out[idx] = dtype(bool(self[idx]))
            return out
        if dtype in (_float, float, _np.float64):
            if is_sym(self):
                return self
            out = _np.empty(self.shape, dtype=_np.float64)
            for idx in _np.ndindex(self.shape):
                out[idx] = _float(conc(_np.ndarray.__getitem__(self, idx)))
            return out
        return _np.ndarray.astype(self, dtype, *a, **k)

    def _key(self, key):
        if isinstance(key, _np.ndarray) and key.dtype == object and key.size and any(isinstance(v, (SB,)) for v in key.flat):
            out = _np.empty(key.shape, dtype=bool)
            for idx in _np.ndindex(key.shape):
                out[idx] = bool(key[idx])
            return out
        if isinstance(key, tuple):
            return tuple(self._key(kk) for kk in key)
        return key

    def __getitem__(self, key):
        r = _np.ndarray.__getitem__(self, self._key(key))
        return r

    def __setitem__(self, key, v):
        _np.ndarray.__setitem__(self, self._key(key), _wrapval(v))

    def item(self, *a):
        r = _np.ndarray.item(self, *a)
        return r

    def __float__(self):
        if self.size == 1:
            return _float(self.reshape(-1)[0])
        raise TypeError("only size-1 arrays")


def _sr(v):
    return v if isinstance(v, SR) else SR(v)


def _scalar(r):
    """0-d object arrays -> their element"""
    if isinstance(r, _np.ndarray) and r.shape == () and r.dtype == object:
        return r.item()
    return r


def _sc(v):
    return v


def _sb(v):
    return v if isinstance(v, SB) else SB(bool(v))


def _boolarr(out):
    """object array of python bools / SB -> bool array if fully concrete, else SA"""
    if all(isinstance(v, (bool, _np.bool_)) for v in out.flat):
        return out.astype(bool)
    return out.view(SA)


def _any(vals):
    terms = []
    for v in vals:
        if isinstance(v, SB):
            terms.append(v.b)
        elif v:
            return True
    if not terms:
        return False
    return SB(z3.Or(*terms))


def _all(vals):
    terms = []
    for v in vals:
        if isinstance(v, SB):
            terms.append(v.b)
        elif not v:
            return False
    if not terms:
        return True
    return SB(z3.And(*terms))


def _elementwise1(a, f):
    a = _np.asarray(a, dtype=object)
    out = _np.empty(a.shape, dtype=object)
    for idx in _np.ndindex(a.shape):
        out[idx] = f(a[idx])
    return _boolarr(out) if out.size and isinstance(out.reshape(-1)[0], (SB, bool, _np.bool_)) else out.view(SA)


def _elementwise2(a, b, f):
    a, b = _np.broadcast_arrays(_np.asarray(a, dtype=object), _np.asarray(b, dtype=object))
    out = _np.empty(a.shape, dtype=object)
    for idx in _np.ndindex(a.shape):
        out[idx] = f(a[idx], b[idx])
    return _boolarr(out) if out.size and isinstance(out.reshape(-1)[0], (SB, bool, _np.bool_)) else out.view(SA)


def _has_sym(x):
    """contains SR/SB objects (object array) -- concrete-valued SR count too (they must stay SR)."""
    if isinstance(x, (SR, SB)):
        return True
    if isinstance(x, _np.ndarray):
        return x.dtype == object and x.size > 0 and any(isinstance(v, (SR, SB)) for v in x.flat)
    if isinstance(x, (list, tuple)):
        return any(_has_sym(y) for y in x)
    return False


def _wrapval(v):
    if isinstance(v, (SR, SB)):
        return v
    if isinstance(v, _np.ndarray):
        if v.dtype == object:
            return v
        out = _np.empty(v.shape, dtype=object)
        for idx in _np.ndindex(v.shape):
            out[idx] = SR(v[idx])
        return out
    if isinstance(v, (list, tuple)):
        return _wrapval(_np.array(v, dtype=object) if _has_sym(v) else _np.array(v))
    if isinstance(v, (bool, _np.bool_)):
        return v
    return SR(v)


def _obj(shape, fill):
    a = _np.empty(shape, dtype=object).view(SA)
    z = fill if isinstance(fill, (SR, SB)) else SR(fill)
    for idx in _np.ndindex(a.shape):
        _np.ndarray.__setitem__(a, idx, z)
    return a


def wrap(x):
    """any array-like -> SA with all numeric elements SR"""
    if isinstance(x, (SR, SB)):
        return x
    a = x if isinstance(x, _np.ndarray) else _np.array(x, dtype=object)
    out = _np.empty(a.shape, dtype=object).view(SA)
    for idx in _np.ndindex(a.shape):
        v = a[idx]
        _np.ndarray.__setitem__(out, idx, v if isinstance(v, (SR, SB)) else (v if isinstance(v, (str, bool, _np.bool_, _np.str_)) else SR(v)))
    return out


def unwrap(x):
    """SA / SR with only concrete content -> float ndarray / float (for differential tests)"""
    if isinstance(x, SR):
        return _float(x)
    if isinstance(x, _np.ndarray) and x.dtype == object:
        out = _np.empty(x.shape, dtype=_np.float64)
        for idx in _np.ndindex(x.shape):
            out[idx] = _float(x[idx])
        return out
    return x


# float() shadow: isinstance(x, float) accepts SR, float(SR) keeps SR
class _FloatMeta(type):
    def __instancecheck__(cls, x):
        return isinstance(x, (_float, SR))


class Float(metaclass=_FloatMeta):
    def __new__(cls, x=0.0):
        if isinstance(x, SR):
            return x
        if isinstance(x, _np.ndarray) and x.dtype == object and x.size == 1:
            return x.reshape(-1)[0]
        return _float(x)


# ----------------------------------------------------------------------------------------------
def _elementwise(fname):
    npf = getattr(_np, fname)

    def f(x, *a, **k):
        if isinstance(x, SR):
            return getattr(x, fname)()
        if isinstance(x, _np.ndarray) and x.dtype == object:
            out = _np.empty(x.shape, dtype=object).view(SA)
            for idx in _np.ndindex(x.shape):
                _np.ndarray.__setitem__(out, idx, getattr(_sr(x[idx]), fname)())
            return out
        if isinstance(x, (list, tuple)) and _has_sym(x):
            return f(wrap(x))
        return npf(x, *a, **k)
    f.__name__ = fname
    return f


def _interp_scalar(q, xp, fp):
    """piecewise-linear interpolation, numpy.interp semantics (clamped), q / xp / fp may be symbolic.
    Forks on the position of q among the xp when that is symbolic."""
    n = len(xp)
    if bool(_sr(q) <= xp[0]):
        return _sr(fp[0])
    if bool(_sr(q) >= xp[n - 1]):
        return _sr(fp[n - 1])
    for j in range(n - 1):
        if bool(_sr(q) < xp[j + 1]) or j == n - 2:
            t = (_sr(q) - xp[j]) / (_sr(xp[j + 1]) - xp[j])
            return _sr(fp[j]) + t * (_sr(fp[j + 1]) - fp[j])


class _Linalg:
    def __getattr__(self, n):
        return getattr(_np.linalg, n)

    def norm(self, x, ord=None, axis=None, keepdims=False):
        if not _has_sym(x):
            return _np.linalg.norm(x, ord=ord, axis=axis, keepdims=keepdims)
        assert ord is None or ord == 2
        x = wrap(x)
        s = _scalar(_np.sum(x * x, axis=axis, keepdims=keepdims))
        c = ctx()
        ue = c.unit_exprs
        if isinstance(s, SR) and s.c is None:
            sid = simp(s.e)
            if sid.get_id() in ue:
                return exact(1)
            if x.shape == (4,) and ue and sid.get_id() not in c.__dict__.setdefault("_not_unit", {}):
                # quaternion normalisation: try to *prove* |x|^2 = 1 from the facts known so far (unit quaternions multiply to unit quaternions)
                from . import smt as _smt
                from .rel import cone_defs
                small = [a for a in c.assumptions]
                if _smt.entails(small + cone_defs(c, [sid]), sid == 1, 4000):
                    ue[sid.get_id()] = sid
                    c.defs.append(sid == 1)
                    c.notes.append("lemma proven: 4-vector has unit norm (normalisation removed)")
                    return exact(1)
                c._not_unit[sid.get_id()] = sid
        return NP.sqrt(s)

    def solve(self, A, b):
        if not (_has_sym(A) or _has_sym(b)):
            return _np.linalg.solve(A, b)
        A = wrap(A); b = wrap(b)
        if not (is_sym(A) or is_sym(b)):
            return wrap(_np.linalg.solve(unwrap(A), unwrap(b)))
        c = ctx()
        n = A.shape[0]
        # the solution is a function of (A, b): syntactically equal systems get the same solution symbols
        kexprs = [simp(zexpr(v)) for v in list(A.reshape(-1)) + list(b.reshape(-1))]
        key = tuple(e_.get_id() for e_ in kexprs)
        cache = c.__dict__.setdefault("_linsolve_cache", {})
        if key in cache:
            return cache[key][1].copy().view(SA)
        x = _obj((n,), 0.0)
        for i in range(n):
            x[i] = SR(c.fresh_real("lin"))
        cache[key] = (kexprs, x)
        for i in range(n):
            r = SR(0.0)
            for j in range(n):
                r = r + A[i, j] * x[j]
            c.defs.append(zexpr(r) == zexpr(b[i]))
        c.notes.append("linsolve: A non-singular assumed")
        return x


class _NP:
    linalg = _Linalg()
    pi = _np.pi
    newaxis = _np.newaxis
    inf = _np.inf
    nan = _np.nan
    ndarray = _np.ndarray
    void = _np.void

    def __getattr__(self, n):
        return getattr(_np, n)

    # creation ----------------------------------------------------------------------------
    def zeros(self, shape, dtype=None, **k):
        if dtype is not None and dtype not in (float, _float, _np.float64, Float):
            return _np.zeros(shape, dtype=dtype, **k)
        return _obj(shape, 0.0)

    def ones(self, shape, dtype=None, **k):
        if dtype is not None and dtype not in (float, _float, _np.float64, Float):
            return _np.ones(shape, dtype=dtype, **k)
        return _obj(shape, 1.0)

    def zeros_like(self, x, **k):
        return _obj(_np.shape(x), 0.0)

    def empty(self, shape, dtype=None, **k):
        if dtype is not None and dtype not in (float, _float, _np.float64, Float):
            return _np.empty(shape, dtype=dtype, **k)
        return _obj(shape, 0.0)

    def full(self, shape, v, **k):
        if isinstance(v, (SR, SB)) or True:
            if isinstance(v, (str, bool)):
                return _np.full(shape, v, **k)
            return _obj(shape, _sr(v))

    def identity(self, n):
        a = _obj((n, n), 0.0)
        for i in range(n):
            a[i, i] = SR(1.0)
        return a

    def eye(self, n):
        return self.identity(n)

    def array(self, x, *a, **k):
        if isinstance(x, SR):
            return wrap(_np.array(x, dtype=object))
        if _has_sym(x):
            return wrap(_np.array(x, dtype=object))
        r = _np.array(x, *a, **k)
        if r.dtype.kind == "f" or r.dtype.kind == "i" and False:
            return wrap(r)
        return r

    def asarray(self, x, *a, **k):
        if isinstance(x, SA):
            return x
        if isinstance(x, SR):
            return wrap(_np.array(x, dtype=object))
        if _has_sym(x):
            return wrap(x)
        r = _np.asarray(x, *a, **k)
        if r.dtype.kind == "f":
            return wrap(r)
        return r

    def copy(self, x, **k):
        r = _np.copy(x, **k)
        return r.view(SA) if r.dtype == object else r

    def linspace(self, *a, **k):
        return wrap(_np.linspace(*a, **k))

    def concatenate(self, arrs, *a, **k):
        if any(_has_sym(x) for x in arrs):
            return _np.concatenate([wrap(x) for x in arrs], *a, **k).view(SA)
        return _np.concatenate(arrs, *a, **k)

    def atleast_1d(self, x):
        if isinstance(x, SR):
            return wrap(_np.array([x], dtype=object))
        return _np.atleast_1d(x)

    # selection ---------------------------------------------------------------------------
    def where(self, cond, a=None, b=None):
        if a is None:
            return _np.where(cond)
        if not (_has_sym(cond) or _has_sym(a) or _has_sym(b)):
            return _np.where(cond, a, b)
        cond, a, b = _np.broadcast_arrays(_np.asarray(cond, dtype=object), _np.asarray(a, dtype=object), _np.asarray(b, dtype=object))
        out = _np.empty(cond.shape, dtype=object).view(SA)
        assume = ctx().__dict__.get("where_assume_true", False)
        for idx in _np.ndindex(cond.shape):
            c = cond[idx]
            if isinstance(c, SB) and assume:
                # harness policy: the condition is *assumed* (recorded as an assumption of the path), no If-term is built
                cb = simp(c.b)
                if not z3.is_true(cb) and not z3.is_false(cb):
                    ctx().assumptions.append(cb)
                    ctx().__dict__["where_assumed"] = ctx().__dict__.get("where_assumed", 0) + 1
                    _np.ndarray.__setitem__(out, idx, _sr(a[idx]))
                    continue
            if isinstance(c, SB):
                cb = simp(c.b)
                if z3.is_true(cb):
                    r = a[idx]
                elif z3.is_false(cb):
                    r = b[idx]
                else:
                    av, bv = a[idx], b[idx]
                    if isinstance(av, (int, _np.integer)) and isinstance(bv, (int, _np.integer)) and not isinstance(av, bool):
                        # integer-valued selection (indices): fork
                        r = av if bool(c) else bv
                    else:
                        r = SR(z3.If(cb, zexpr(av), zexpr(bv)))
            else:
                r = a[idx] if c else b[idx]
            _np.ndarray.__setitem__(out, idx, r if isinstance(r, (int, _np.integer)) and not isinstance(r, bool) else _sr(r))
        if out.size and all(isinstance(v, (int, _np.integer)) for v in out.flat):
            return _np.asarray(out, dtype=int)
        return out

    def nan_to_num(self, x, *a, **k):
        if _has_sym(x):
            x = wrap(x).copy().view(SA)
            for idx in _np.ndindex(x.shape):
                v = x[idx]
                if v.c is not None:
                    x[idx] = SR(_np.nan_to_num(v.c))
            return x
        return _np.nan_to_num(x, *a, **k)

    def isnan(self, x):
        if _has_sym(x):
            x = wrap(x)
            out = _np.zeros(x.shape, dtype=bool)
            for idx in _np.ndindex(x.shape):
                v = x[idx]
                out[idx] = bool(v.c is not None and _np.isnan(v.c))
            return out
        return _np.isnan(x)

    def interp(self, x, xp, fp, *a, **k):
        if not (_has_sym(x) or _has_sym(xp) or _has_sym(fp)):
            return _np.interp(x, xp, fp, *a, **k)
        xpl = [_sr(v) for v in _np.asarray(xp, dtype=object).reshape(-1)]
        fpl = [_sr(v) for v in _np.asarray(fp, dtype=object).reshape(-1)]
        if isinstance(x, SR) or _np.ndim(x) == 0:
            return _interp_scalar(_sr(x if isinstance(x, SR) else _np.asarray(x, dtype=object).item()), xpl, fpl)
        xa = _np.asarray(x, dtype=object)
        out = _obj(xa.shape, 0.0)
        for idx in _np.ndindex(xa.shape):
            out[idx] = _interp_scalar(xa[idx], xpl, fpl)
        return out

    def searchsorted(self, a, v, side="left"):
        if not (_has_sym(a) or _has_sym(v)):
            return _np.searchsorted(a, v, side=side)
        al = [_sr(t) for t in _np.asarray(a, dtype=object).reshape(-1)]
        va = _np.asarray(v, dtype=object)

        def one(q):
            q = _sr(q)
            k = 0
            for t in al:
                if side == "left":
                    if bool(t < q):
                        k += 1
                    else:
                        break
                else:
                    if bool(t <= q):
                        k += 1
                    else:
                        break
            return k
        if va.ndim == 0:
            return one(va.item())
        out = _np.zeros(va.shape, dtype=int)
        for idx in _np.ndindex(va.shape):
            out[idx] = one(va[idx])
        return out

    def gradient(self, f, x, edge_order=1, axis=0):
        if not (_has_sym(f) or _has_sym(x)):
            return _np.gradient(f, x, edge_order=edge_order, axis=axis)
        assert axis == 0 and edge_order == 2
        f = wrap(f); x = wrap(x); n = f.shape[0]
        dx = x[1:] - x[:-1]
        out = _obj(f.shape, 0.0)
        for i in range(1, n - 1):
            hs, hd = dx[i - 1], dx[i]
            a = -hd / (hs * (hd + hs)); b = (hd - hs) / (hd * hs); c = hs / (hd * (hd + hs))
            out[i] = a * f[i - 1] + b * f[i] + c * f[i + 1]
        d1, d2 = dx[0], dx[1]
        out[0] = (-(2 * d1 + d2) / (d1 * (d1 + d2))) * f[0] + ((d1 + d2) / (d1 * d2)) * f[1] + (-d1 / (d2 * (d1 + d2))) * f[2]
        d1, d2 = dx[-2], dx[-1]
        out[n - 1] = (d2 / (d1 * (d1 + d2))) * f[n - 3] + (-(d2 + d1) / (d1 * d2)) * f[n - 2] + ((2 * d2 + d1) / (d2 * (d1 + d2))) * f[n - 1]
        return out

    def cumsum(self, a, *args, **k):
        if not _has_sym(a):
            return _np.cumsum(a, *args, **k)
        a = wrap(a); out = _obj(a.shape, 0.0); acc = SR(0.0)
        for i in range(a.shape[0]):
            acc = acc + a[i]; out[i] = acc
        return out

    def diff(self, a, n=1, axis=-1, **k):
        if not _has_sym(a):
            return _np.diff(a, n=n, axis=axis, **k)
        a = wrap(a)
        assert n == 1
        if axis in (0,) or a.ndim == 1:
            return a[1:] - a[:-1]
        if axis == -1:
            return a[..., 1:] - a[..., :-1]
        raise NotImplementedError

    def sum(self, a, *args, **k):
        r = _np.sum(a, *args, **k)
        if isinstance(r, _np.ndarray) and r.dtype == object:
            return _scalar(r.view(SA))
        return r

    def max(self, a, *args, **k):
        if _has_sym(a):
            a = wrap(a)
            if is_sym(a):
                vals = list(a.flat)
                m = vals[0]
                for v in vals[1:]:
                    m = SR(z3.If(zexpr(v) > zexpr(m), zexpr(v), zexpr(m)))
                return m
            return SR(_np.max(unwrap(a)))
        return _np.max(a, *args, **k)

    def min(self, a, *args, **k):
        if _has_sym(a):
            a = wrap(a)
            if is_sym(a):
                vals = list(a.flat)
                m = vals[0]
                for v in vals[1:]:
                    m = SR(z3.If(zexpr(v) < zexpr(m), zexpr(v), zexpr(m)))
                return m
            return SR(_np.min(unwrap(a)))
        return _np.min(a, *args, **k)

    # arithmetic --------------------------------------------------------------------------
    def arctan2(self, y, x):
        if not (_has_sym(y) or _has_sym(x)):
            return _np.arctan2(y, x)
        if isinstance(y, SR) and not isinstance(x, _np.ndarray):
            return y.arctan2(_sr(x))
        y, x = _np.broadcast_arrays(_np.asarray(y, dtype=object), _np.asarray(x, dtype=object))
        out = _np.empty(y.shape, dtype=object).view(SA)
        for idx in _np.ndindex(y.shape):
            _np.ndarray.__setitem__(out, idx, _sr(y[idx]).arctan2(_sr(x[idx])))
        return out if out.shape else out[()]

    def einsum(self, spec, *ops, **k):
        if not any(_has_sym(o) for o in ops):
            return _np.einsum(spec, *ops, **k)
        ops = [wrap(o) for o in ops]
        r = _np.einsum(spec, *ops, **k)
        return _scalar(r.view(SA)) if isinstance(r, _np.ndarray) else r

    def cross(self, a, b, *args, **k):
        if not (_has_sym(a) or _has_sym(b)):
            return _np.cross(a, b, *args, **k)
        a = wrap(a); b = wrap(b)
        a, b = _np.broadcast_arrays(a, b)
        out = _np.empty(a.shape, dtype=object).view(SA)
        _np.ndarray.__setitem__(out, (Ellipsis, 0), a[..., 1] * b[..., 2] - a[..., 2] * b[..., 1])
        _np.ndarray.__setitem__(out, (Ellipsis, 1), a[..., 2] * b[..., 0] - a[..., 0] * b[..., 2])
        _np.ndarray.__setitem__(out, (Ellipsis, 2), a[..., 0] * b[..., 1] - a[..., 1] * b[..., 0])
        return out

    def dot(self, a, b):
        if not (_has_sym(a) or _has_sym(b)):
            return _np.dot(a, b)
        r = _np.dot(wrap(a), wrap(b))
        return _scalar(r.view(SA)) if isinstance(r, _np.ndarray) else r

    def matmul(self, a, b):
        if not (_has_sym(a) or _has_sym(b)):
            return _np.matmul(a, b)
        return _np.matmul(wrap(a), wrap(b)).view(SA)

    def true_divide(self, a, b):
        if not (_has_sym(a) or _has_sym(b)):
            return _np.true_divide(a, b)
        a = wrap(a); b = wrap(b)
        a, b = _np.broadcast_arrays(a, b)
        out = _np.empty(a.shape, dtype=object).view(SA)
        for idx in _np.ndindex(a.shape):
            x, y = _sr(a[idx]), _sr(b[idx])
            if y.c is not None and y.c == 0 and x.c is None:
                # symbolic / concrete zero: the real code relies on inf/nan here; keep a poisoned value
                _np.ndarray.__setitem__(out, idx, SR(_np.nan))
            elif y.c is not None and x.c is not None:
                with _np.errstate(all="ignore"):
                    _np.ndarray.__setitem__(out, idx, SR(x.c / y.c))
            else:
                _np.ndarray.__setitem__(out, idx, x / y)
        return out

    def allclose(self, a, b, rtol=1e-5, atol=1e-8, **k):
        if not (_has_sym(a) or _has_sym(b)):
            return _np.allclose(a, b, rtol=rtol, atol=atol, **k)
        a = wrap(a); b = wrap(b)
        a, b = _np.broadcast_arrays(a, b)
        terms = []
        for idx in _np.ndindex(a.shape):
            d = abs(_sr(a[idx]) - _sr(b[idx])) <= atol + rtol * abs(_sr(b[idx]))
            terms.append(d)
        return _all(terms)

    def array_equal(self, a, b, **k):
        if not (_has_sym(a) or _has_sym(b)):
            return _np.array_equal(a, b, **k)
        a = wrap(a); b = wrap(b)
        if a.shape != b.shape:
            return False
        return _all([_sr(a[idx]) == _sr(b[idx]) for idx in _np.ndindex(a.shape)])

    def abs(self, x):
        if _has_sym(x):
            if isinstance(x, SR):
                return abs(x)
            x = wrap(x); out = _obj(x.shape, 0.0)
            for idx in _np.ndindex(x.shape):
                out[idx] = abs(x[idx])
            return out
        return _np.abs(x)

    absolute = abs

    def repeat(self, a, *args, **k):
        r = _np.repeat(a, *args, **k)
        return r.view(SA) if r.dtype == object else r

    def transpose(self, a, *args):
        if isinstance(a, (list, tuple)) and _has_sym(a):
            a = wrap(a)
        r = _np.transpose(a, *args)
        return r.view(SA) if isinstance(r, _np.ndarray) and r.dtype == object else r

    def set_printoptions(self, *a, **k):
        return None

    def errstate(self, **k):
        return _np.errstate(**k)

    def vectorize(self, f, *a, **k):
        return _np.vectorize(f, *a, **k)

    def savetxt(self, *a, **k):
        raise RuntimeError("np.savetxt reached without a writer stub")


NP = _NP()
for _n in ["sqrt", "cos", "sin", "tan", "exp", "arctan", "arcsin", "arccos", "radians", "degrees", "log"]:
    setattr(_NP, _n, staticmethod(_elementwise(_n)))


# ----------------------------------------------------------------------------------------------
class _M:
    pi = _m.pi
    inf = _m.inf

    def __getattr__(self, n):
        return getattr(_m, n)


def _mk(name, meth):
    f0 = getattr(_m, name)

    def f(x, *a):
        if (isinstance(x, SR) and x.c is None) or any(isinstance(y, SR) and y.c is None for y in a):
            return getattr(_sr(x), meth)(*a)
        return f0(_float(x), *[_float(y) for y in a])
    return staticmethod(f)


for _n, _meth in [("cos", "cos"), ("sin", "sin"), ("tan", "tan"), ("atan", "arctan"), ("asin", "arcsin"), ("acos", "arccos"),
                  ("sqrt", "sqrt"), ("atan2", "arctan2"), ("exp", "exp"), ("radians", "radians"), ("degrees", "degrees")]:
    setattr(_M, _n, _mk(_n, _meth))
M = _M()


# ----------------------------------------------------------------------------------------------
# scipy stand-ins
class Integ:
    """scipy.integrate stand-in.  quad(f,a,b): constant integrand -> f*(b-a) exactly; otherwise an atom
    Q(f(s*),a,b) with the integrand evaluated at a symbolic abscissa s*."""
    @staticmethod
    def quad(f, a, b, *args, **kw):
        import scipy.integrate as si
        probes = [f(x) for x in (0.123, 0.456, 0.789)]
        symb = any(isinstance(v, SR) and v.c is None for v in probes) or is_sym(a) or is_sym(b)
        if not symb:
            fa = _float(a) if not isinstance(a, SR) else _float(a.c)
            fb = _float(b) if not isinstance(b, SR) else _float(b.c)
            r = si.quad(lambda s: _float(f(s)), fa, fb, *args, **kw)
            return r
        vals = [_sr(v) for v in probes]
        if all(z3.eq(simp(zexpr(vals[0])), simp(zexpr(v))) for v in vals[1:]):
            return (vals[0] * (_sr(b) - _sr(a)), 0.0)
        c = ctx()
        sstar = SR(c.fresh_real("sstar"))
        c.assumptions.append(z3.And(zexpr(sstar) >= 0, zexpr(sstar) <= 1))
        fv = _sr(f(sstar))
        q = c.atom("Q", [simp(zexpr(fv)), simp(zexpr(_sr(a))), simp(zexpr(_sr(b)))])
        return (SR(q), 0.0)


class _Interp1d:
    def __init__(self, x, y, axis=0, **kw):
        assert axis == 0
        self.x = x
        self.y = wrap(y) if _has_sym(y) else y
        self._sym = _has_sym(x) or _has_sym(y)
        if not self._sym:
            import scipy.interpolate as sinterp
            self._f = sinterp.interp1d(x, y, axis=axis, **kw)

    def __call__(self, xq):
        if not self._sym and not _has_sym(xq):
            return self._f(xq)
        scalar = _np.ndim(xq) == 0
        xqa = _np.atleast_1d(_np.asarray(xq, dtype=object))
        xs = [_sr(v) for v in _np.asarray(self.x, dtype=object).reshape(-1)]
        ys = self.y if isinstance(self.y, _np.ndarray) and self.y.dtype == object else wrap(self.y)
        rev = bool(xs[0] > xs[-1])
        if rev:
            xs = xs[::-1]; ys = ys[::-1]
        n = len(xs)
        out = _obj((len(xqa),) + ys.shape[1:], 0.0)
        for k, q in enumerate(xqa):
            q = _sr(q)
            j = None
            for jj in range(n - 1):
                if jj == n - 2 or bool(q < xs[jj + 1]):
                    j = jj
                    break
            t = (q - xs[j]) / (xs[j + 1] - xs[j])
            out[k] = ys[j] * (1 - t) + ys[j + 1] * t
        return out[0] if scalar else out


class Interp:
    interp1d = _Interp1d

    def __getattr__(self, n):
        import scipy.interpolate as sinterp
        return getattr(sinterp, n)


INTERP = Interp()


# ----------------------------------------------------------------------------------------------
_installed = {}


def install(extra_modules=()):
    """Inject the facade into the machupX modules (module globals only; /repo is not modified)."""
    import machupX.helpers as H, machupX.scene as SC, machupX.airplane as AP, machupX.wing_segment as WS
    import machupX.standard_atmosphere as SAT
    mods = [H, SC, AP, WS, SAT] + list(extra_modules)
    for mod in mods:
        if mod.__name__ not in _installed:
            _installed[mod.__name__] = {k: mod.__dict__.get(k, _MISSING) for k in ("np", "float", "m", "integ", "interp")}
        mod.np = NP
        mod.float = Float
    AP.m = M; SC.m = M; WS.m = M
    WS.integ = Integ; WS.interp = INTERP; AP.integ = Integ
    # vectorized_convert_units was built from the real numpy at import time; rebuild on the facade-aware path
    H.vectorized_convert_units = _vectorized_convert_units


_MISSING = object()


def uninstall():
    import importlib
    for name, saved in _installed.items():
        mod = importlib.import_module(name)
        for k, v in saved.items():
            if v is _MISSING:
                mod.__dict__.pop(k, None)
            else:
                setattr(mod, k, v)
    import machupX.helpers as H
    H.vectorized_convert_units = _np.vectorize(H.convert_units)
    _installed.clear()


def _vectorized_convert_units(vals, units, system):
    import machupX.helpers as H
    if not _has_sym(vals):
        return _np.vectorize(H.convert_units)(vals, units, system)
    va = _np.asarray(vals, dtype=object)
    ua = _np.asarray(units, dtype=object)
    va_b, ua_b = _np.broadcast_arrays(va, ua)
    out = _obj(va_b.shape, 0.0)
    for idx in _np.ndindex(va_b.shape):
        out[idx] = H.convert_units(_sr(va_b[idx]), str(ua_b[idx]), system)
    return out


class real:
    """context manager: run a block on the untouched modules (facade removed), then restore the facade"""
    def __enter__(self):
        self._was = bool(_installed)
        if self._was:
            uninstall()
        from .values import Ctx
        self._ctx = Ctx.cur
        return self

    def __exit__(self, *a):
        from .values import Ctx
        Ctx.cur = self._ctx
        if self._was:
            install()
        return False
