"""symx.values -- concolic reals, symbolic booleans, path context and atoms.

SR is a *concolic real*: either a concrete IEEE double (then every operation is done in floating
point exactly as the real code would do it) or a z3 Real term.  It lives inside numpy object arrays,
so the real vectorised MachUpX source runs unmodified on numpy itself.

Every non-polynomial operation (sqrt, division, trig, exp, pow) is an *atom*: a fresh z3 constant keyed
by its simplified argument terms; defining constraints are kept apart in the context so that final
obligations are polynomial (in)equalities over atoms.
"""
import fractions
import math
import sys

import numpy as np
import z3

__all__ = ["Ctx", "ctx", "SR", "SB", "sym", "symvec", "zexpr", "conc", "is_sym", "Concretised",
           "exact", "simp", "PI", "IPI"]


class Concretised(TypeError):
    """A symbolic value reached code that needs a concrete number (C code, float(), int())."""


def simp(e):
    return z3.simplify(e)


# pi is a symbolic constant so that radians(degrees(x)) cancels exactly
PI = z3.Real("PI")
IPI = z3.Real("IPI")
PI_DEFS = [PI > z3.RealVal("3.14159"), PI < z3.RealVal("3.1416"), IPI * PI == 1]


def _repo_site():
    f = sys._getframe(2)
    site = "?"
    while f is not None:
        fn = f.f_code.co_filename
        if "/machupX/" in fn:
            site = "%s:%d" % (fn.rsplit("/", 1)[-1], f.f_lineno)
            break
        f = f.f_back
    return site


class Ctx:
    """One per explored path."""
    cur = None

    def __init__(self, decisions=()):
        self.decisions = list(decisions)   # forced prefix of branch decisions
        self.taken = []                    # (z3 bool, value) log
        self.pc = []                       # path condition
        self.atoms = {}                    # key -> (var, fname, args)
        self.events = []                   # atom request log (var, fname, args, scope)
        self.defs = []                     # defining constraints of atoms
        self.defof = {}                    # var id -> (defs, args)
        self.where = {}                    # var id -> creation site
        self.fresh = 0
        self.scope = None
        self.assumptions = []              # harness assumptions (z3 bools)
        self.notes = []
        self.uses_pi = False
        self.max_forks = 400
        self.unit_exprs = {}               # ids of simplified sum-of-squares terms the harness declared equal to 1
        self.by_site = {}                  # (fname, site) -> atoms created there
        self.site_align = False            # eager alignment of new atoms with earlier ones of the same site (twin runs)
        self.site_align_max = 6
        self.site_align_max_site_size = 8
        self.site_align_timeout_ms = 2000
        self.site_aligned = 0
        self._keep = []
        self.atom_hooks = {}               # fname -> f(var, args) -> extra defining facts (harness-declared ranges of trigonometric atoms)
        self.fork_entail = False           # before forking, ask whether the path condition already decides the branch
        self.fork_entail_timeout_ms = 4000
        self.implied_forks = 0

    def fresh_real(self, prefix):
        self.fresh += 1
        return z3.Real("%s!%d" % (prefix, self.fresh))

    def _site_align(self, fname, args, site):
        """eager alignment: an atom created at the same source line with provably equal arguments is re-used"""
        from . import smt as _smt
        from .rel import cone_defs
        allc = self.by_site.get((fname, site), [])
        if not allc or len(allc) > self.site_align_max_site_size:
            return None          # busy sites (N x N geometry loops) are left to the later, targeted alignment
        cands = [e for e in allc if len(e[2]) == len(args)][-self.site_align_max:]
        if not cands:
            return None
        base = list(self.assumptions)
        for ent in reversed(cands):
            goal = z3.And(*[x == y for x, y in zip(args, ent[2])])
            if _smt.entails(base + cone_defs(self, list(args) + list(ent[2])), goal, self.site_align_timeout_ms):
                self.site_aligned += 1
                return ent
        return None

    def atom(self, fname, args, mk_defs=None):
        key = (fname,) + tuple(a.get_id() for a in args)
        ent = self.atoms.get(key)
        if ent is None and self.site_align:
            site = _repo_site()
            hit = self._site_align(fname, args, site)
            if hit is not None:
                self.atoms[key] = hit
                self._keep.append(tuple(args))
                ent = hit
        if ent is None:
            v = self.fresh_real(fname)
            ent = (v, fname, tuple(args))
            self.atoms[key] = ent
            self.where[v.get_id()] = _repo_site()
            self.by_site.setdefault((fname, self.where[v.get_id()]), []).append(ent)
            d = []
            if mk_defs is not None:
                d = list(mk_defs(v, *args))
            if fname in ("sin", "cos") and len(args) == 1:
                other = self.atoms.get(("cos" if fname == "sin" else "sin", args[0].get_id()))
                if other is not None:
                    pyth = [v * v + other[0] * other[0] == 1]
                    d = d + pyth
                    od, oa = self.defof.get(other[0].get_id(), ([], other[2]))
                    self.defof[other[0].get_id()] = (list(od) + pyth, oa)
            if fname in ("sin", "cos") and len(args) == 1 and z3.is_const(args[0]) and args[0].decl().name().startswith("atan!"):
                # composition with an arctangent atom t = atan(u): cos t > 0, sin t = u cos t, cos^2 t (1 + u^2) = 1
                ua = self.defof.get(args[0].get_id())
                src = [e for e in self.atoms.values() if e[0].get_id() == args[0].get_id()]
                if src:
                    u = src[0][2][0]
                    if fname == "cos":
                        d = d + [v > 0, v * v * (1 + u * u) == 1]
                    else:
                        cs = self.atoms.get(("cos", args[0].get_id()))
                        if cs is not None:
                            d = d + [v == u * cs[0]]
            if fname == "tan" and len(args) == 1:
                sn = self.atoms.get(("sin", args[0].get_id()))
                cs = self.atoms.get(("cos", args[0].get_id()))
                if sn is not None and cs is not None:
                    d = d + [v * cs[0] == sn[0]]
            hook = self.atom_hooks.get(fname) if self.atom_hooks else None
            if hook is not None:
                d = d + list(hook(v, args))
            if d:
                self.defs.extend(d)
                self.defof[v.get_id()] = (d, tuple(args))
        self.events.append(ent + (self.scope,))
        return ent[0]

    def assume(self, b):
        if isinstance(b, SB):
            b = b.b
        if isinstance(b, (bool, np.bool_)):
            b = z3.BoolVal(bool(b))
        self.assumptions.append(b)

    def declare_unit(self, comps):
        """the harness assumes sum(c*c for c in comps) == 1: norms of that vector simplify to exact 1"""
        e = None
        for cpt in comps:
            t = zexpr(cpt) * zexpr(cpt)
            e = t if e is None else e + t
        s = simp(e)
        self.unit_exprs[s.get_id()] = s
        self.assumptions.append(e == 1)

    def all_facts(self):
        out = list(self.assumptions) + list(self.pc) + list(self.defs)
        if self.uses_pi:
            out += PI_DEFS
        return out


def ctx():
    c = Ctx.cur
    if c is None:
        c = Ctx.cur = Ctx()
    return c


def _rv(x):
    x = float(x)
    if x != x or math.isinf(x):
        raise ArithmeticError("non-finite concrete value entered a symbolic expression")
    fr = fractions.Fraction(x)
    return z3.RealVal(str(fr))


def exact(x):
    """An SR holding an *exact* z3 numeral (used for the trivial side of twin runs)."""
    if isinstance(x, fractions.Fraction):
        return SR(z3.RealVal(str(x)))
    if isinstance(x, int):
        return SR(z3.RealVal(x))
    return SR(_rv(x))


def zexpr(x):
    """z3 Real term for any scalar."""
    if isinstance(x, SR):
        return x.e if x.c is None else _rv(x.c)
    if isinstance(x, SB):
        return z3.If(x.b, z3.RealVal(1), z3.RealVal(0))
    if isinstance(x, (bool, np.bool_)):
        return z3.RealVal(int(x))
    if isinstance(x, (int, np.integer)):
        return z3.RealVal(int(x))
    if isinstance(x, (float, np.floating)):
        return _rv(x)
    if isinstance(x, z3.ExprRef):
        return x
    if isinstance(x, np.ndarray) and x.shape == ():
        return zexpr(x.item())
    raise TypeError("zexpr: %r" % type(x))


def conc(x):
    """concrete float value or None"""
    if isinstance(x, SR):
        return x.c
    if isinstance(x, SB):
        b = simp(x.b)
        if z3.is_true(b):
            return np.float64(1.0)
        if z3.is_false(b):
            return np.float64(0.0)
        return None
    if isinstance(x, (bool, np.bool_, int, np.integer, float, np.floating)):
        return np.float64(x)
    if isinstance(x, np.ndarray) and x.shape == ():
        return conc(x.item())
    raise TypeError("conc: %r" % type(x))


def is_sym(x):
    if isinstance(x, SR):
        return x.c is None
    if isinstance(x, SB):
        return conc(x) is None
    if isinstance(x, np.ndarray):
        if x.dtype != object:
            return False
        return any(is_sym(v) for v in x.flat)
    if isinstance(x, (list, tuple)):
        return any(is_sym(v) for v in x)
    return False


def _lead_neg(a):
    """deterministic sign of an expression's leading coefficient: exactly one of e, -e is 'negative' (cheap canonical choice)"""
    for _ in range(50):
        if z3.is_rational_value(a):
            return a.numerator_as_long() < 0
        k = a.decl().kind()
        if k == z3.Z3_OP_UMINUS:
            return True
        if k == z3.Z3_OP_MUL:
            c0 = a.arg(0)
            return z3.is_rational_value(c0) and c0.numerator_as_long() < 0
        if k == z3.Z3_OP_ADD:
            a = a.arg(0)
            continue
        return False
    return False


def _is_zero(e):
    return z3.is_rational_value(e) and e.numerator_as_long() == 0


def _is_one(e):
    return z3.is_rational_value(e) and e.numerator_as_long() == e.denominator_as_long()


def _arr_op(fn, arr):
    out = np.empty(arr.shape, dtype=object)
    for idx in np.ndindex(arr.shape):
        out[idx] = fn(arr[idx])
    from .facade import SA
    return out.view(SA)


def _bin(opname, fop):
    def f(self, o):
        if isinstance(o, np.ndarray):
            return _arr_op(lambda v: f(self, v), o)
        if isinstance(o, (str, type(None), list, tuple, dict)):
            return NotImplemented
        a, b = self.c, conc(o)
        if a is not None and b is not None:
            with np.errstate(all="ignore"):
                return SR(fop(a, b))
        if opname == "mul":
            if (a is not None and a == 0) or (b is not None and b == 0):
                return SR(0.0)
            if a is not None and a == 1:
                return SR(o) if not isinstance(o, SB) else SR(zexpr(o))
            if b is not None and b == 1:
                return self
        if opname in ("add", "sub") and b is not None and b == 0:
            return self
        if opname == "add" and a is not None and a == 0:
            return SR(zexpr(o))
        if opname == "div":
            if a is not None and a == 0:
                return SR(0.0)
            if b is not None:
                with np.errstate(all="ignore"):
                    if b == 0:
                        raise ZeroDivisionError("symbolic value divided by concrete zero")
                return SR(zexpr(self) / _rv(b))
            return self * SR(o).inv()
        return SR(fop(zexpr(self), zexpr(o)))

    def r(self, o):
        if isinstance(o, np.ndarray):
            return _arr_op(lambda v: r(self, v), o)
        if isinstance(o, (str, type(None), list, tuple, dict)):
            return NotImplemented
        return f(SR(o) if not isinstance(o, SB) else SR(zexpr(o)), self)
    return f, r


class SR:
    __array_priority__ = 1000
    __slots__ = ("e", "c")

    def __init__(self, v):
        if isinstance(v, SR):
            self.e, self.c = v.e, v.c
        elif isinstance(v, z3.ExprRef):
            self.e, self.c = v, None
        elif isinstance(v, SB):
            cv = conc(v)
            if cv is not None:
                self.e, self.c = None, cv
            else:
                self.e, self.c = zexpr(v), None
        elif isinstance(v, np.ndarray):
            if v.shape != () and v.size != 1:
                raise TypeError("SR from array of shape %r" % (v.shape,))
            w = v.reshape(-1)[0]
            self.__init__(w)
        else:
            self.e, self.c = None, np.float64(v)

    __add__, __radd__ = _bin("add", lambda a, b: a + b)
    __sub__, __rsub__ = _bin("sub", lambda a, b: a - b)
    __mul__, __rmul__ = _bin("mul", lambda a, b: a * b)
    __truediv__, __rtruediv__ = _bin("div", lambda a, b: a / b)

    def __neg__(self):
        return SR(-self.c) if self.c is not None else SR(-self.e)

    def __pos__(self):
        return self

    def __abs__(self):
        if self.c is not None:
            return SR(abs(self.c))
        return SR(z3.If(self.e >= 0, self.e, -self.e))

    def __pow__(self, k):
        if isinstance(k, SR):
            if k.c is None:
                raise Concretised("symbolic exponent")
            k = k.c
        if self.c is not None:
            with np.errstate(all="ignore"):
                return SR(self.c ** k)
        kf = float(k)
        if kf == int(kf) and int(kf) >= 0:
            r = z3.RealVal(1)
            for _ in range(int(kf)):
                r = r * self.e
            return SR(r)
        if kf == int(kf) and int(kf) < 0:
            return (self ** (-int(kf))).inv()
        if kf == 0.5:
            return self.sqrt()
        if kf == 1.5:
            return self * self.sqrt()
        if kf == 0.25:
            return self.sqrt().sqrt()
        # general real power: atom pow(base, k) with k concrete
        return SR(ctx().atom("pow", [simp(self.e), _rv(kf)], lambda v, a, kk: [v > 0]))

    def __rpow__(self, base):
        # concrete base ** symbolic exponent
        b = conc(base)
        if b is None:
            raise Concretised("symbolic ** symbolic")
        if self.c is not None:
            return SR(b ** self.c)
        return SR(ctx().atom("powb", [_rv(b), simp(self.e)], lambda v, bb, a: [v > 0]))

    def _cmp(self, o, cop, zop, infval):
        if isinstance(o, np.ndarray):
            from .facade import _boolarr
            out = np.empty(o.shape, dtype=object)
            for idx in np.ndindex(o.shape):
                out[idx] = self._cmp(o[idx], cop, zop, infval)
            return _boolarr(out)
        a, b = self.c, conc(o)
        if a is not None and b is not None:
            return bool(cop(a, b))
        if b is not None and math.isinf(b):
            return infval(b)
        if a is not None and math.isinf(a):
            return infval(-a) if False else cop(a, 0.0)
        if (a is not None and a != a) or (b is not None and b != b):
            return cop(np.float64("nan"), 0.0)
        return SB(zop(zexpr(self), zexpr(o)))

    def __lt__(self, o): return self._cmp(o, lambda a, b: a < b, lambda a, b: a < b, lambda b: b > 0)
    def __le__(self, o): return self._cmp(o, lambda a, b: a <= b, lambda a, b: a <= b, lambda b: b > 0)
    def __gt__(self, o): return self._cmp(o, lambda a, b: a > b, lambda a, b: a > b, lambda b: b < 0)
    def __ge__(self, o): return self._cmp(o, lambda a, b: a >= b, lambda a, b: a >= b, lambda b: b < 0)

    def __eq__(self, o):
        if isinstance(o, (str, type(None), list, tuple, dict)):
            return False
        return self._cmp(o, lambda a, b: a == b, lambda a, b: a == b, lambda b: False)

    def __ne__(self, o):
        if isinstance(o, (str, type(None), list, tuple, dict)):
            return True
        return self._cmp(o, lambda a, b: a != b, lambda a, b: a != b, lambda b: True)

    __hash__ = None

    def __float__(self):
        if self.c is not None:
            return float(self.c)
        raise Concretised("symbolic real concretised by float()")

    def __int__(self):
        if self.c is not None:
            return int(self.c)
        raise Concretised("symbolic real concretised by int()")

    def __round__(self, n=None):
        if self.c is not None:
            return round(float(self.c), n) if n is not None else round(float(self.c))
        raise Concretised("symbolic real concretised by round()")

    def __bool__(self):
        if self.c is not None:
            return bool(self.c)
        return bool(SB(self.e != 0))

    # --- atoms -------------------------------------------------------------------------------
    def _un(self, fname, mfunc, cons=None):
        if self.c is not None:
            with np.errstate(all="ignore"):
                return SR(mfunc(self.c))
        a = simp(self.e)
        if z3.is_rational_value(a):
            if _is_zero(a) and fname in ("sin", "tan", "atan", "asin", "sqrt"):
                return SR(z3.RealVal(0))
            if _is_zero(a) and fname in ("cos", "exp"):
                return SR(z3.RealVal(1))
        par = {"sin": -1, "tan": -1, "atan": -1, "asin": -1, "cos": 1}.get(fname)
        if par is not None and _lead_neg(a):
            na = simp(-self.e)
            if not _lead_neg(na):
                v = SR(ctx().atom(fname, [na], cons))
                return v if par == 1 else -v
        return SR(ctx().atom(fname, [a], cons))

    def inv(self):
        if self.c is not None:
            with np.errstate(all="ignore"):
                return SR(1.0 / self.c)
        a = simp(self.e)
        if z3.is_rational_value(a):
            if _is_zero(a):
                raise ZeroDivisionError("division by exact zero")
            return SR(simp(1 / a))
        # sign-canonical: inv(-x) = -inv(x)
        if _lead_neg(a):
            na = simp(-self.e)
            if not _lead_neg(na):
                return -SR(ctx().atom("inv", [na], lambda v, x: [v * x == 1]))
        return SR(ctx().atom("inv", [a], lambda v, x: [v * x == 1]))

    def sqrt(self):
        if self.c is None:
            a = simp(self.e)
            if z3.is_rational_value(a):
                fr = fractions.Fraction(a.numerator_as_long(), a.denominator_as_long())
                if fr >= 0:
                    n, d = math.isqrt(fr.numerator), math.isqrt(fr.denominator)
                    if n * n == fr.numerator and d * d == fr.denominator:
                        return exact(fractions.Fraction(n, d))
        return self._un("sqrt", np.sqrt, lambda v, a: [v >= 0, v * v == a])

    def cos(self): return self._un("cos", np.cos, lambda v, a: [v <= 1, v >= -1])
    def sin(self): return self._un("sin", np.sin, lambda v, a: [v <= 1, v >= -1])
    def tan(self): return self._un("tan", np.tan)
    def exp(self): return self._un("exp", np.exp, lambda v, a: [v > 0])
    def arctan(self): return self._un("atan", np.arctan)
    def arcsin(self): return self._un("asin", np.arcsin)
    def arccos(self): return self._un("acos", np.arccos)
    def log(self): return self._un("log", np.log)
    def conjugate(self): return self

    def arctan2(self, o):
        if self.c is not None and conc(o) is not None:
            return SR(np.arctan2(self.c, conc(o)))
        return SR(ctx().atom("atan2", [simp(zexpr(self)), simp(zexpr(o))]))

    def radians(self):
        if self.c is not None:
            return SR(np.radians(self.c))
        c = ctx()
        c.uses_pi = True
        hit = c.__dict__.setdefault("_deg_table", {}).get(simp(self.e).get_id())
        if hit is not None:
            return hit[1]                    # radians(degrees(x)) is x itself
        return SR(self.e * PI / 180)

    def degrees(self):
        if self.c is not None:
            return SR(np.degrees(self.c))
        c = ctx()
        c.uses_pi = True
        r = SR(self.e * 180 * IPI)
        k = simp(r.e)
        c.__dict__.setdefault("_deg_table", {})[k.get_id()] = (k, self)     # (the key term is kept alive: z3 re-uses ids of freed terms)
        return r

    def item(self): return self
    def copy(self): return self
    def __copy__(self): return self
    def __deepcopy__(self, memo): return self
    def flatten(self): return np.array([self], dtype=object)

    @property
    def shape(self): return ()
    @property
    def ndim(self): return 0
    @property
    def real(self): return self
    @property
    def T(self): return self

    def __repr__(self):
        return "SR(%s)" % (self.c if self.c is not None else self.e)

    def __format__(self, spec):
        if self.c is not None:
            return format(float(self.c), spec)
        return "<sym>"


class SB:
    """Symbolic boolean; bool() on it is the only place where a path forks."""
    __slots__ = ("b",)
    __array_priority__ = 1000

    def __init__(self, b):
        if isinstance(b, SB):
            b = b.b
        elif isinstance(b, (bool, np.bool_)):
            b = z3.BoolVal(bool(b))
        self.b = b

    def __bool__(self):
        c = ctx()
        b = simp(self.b)
        if z3.is_true(b):
            return True
        if z3.is_false(b):
            return False
        k = len(c.taken)
        if k >= c.max_forks:
            raise RuntimeError("fork bound exceeded")
        # re-use a decision already taken on the very same term
        for (tb, tv) in c.taken:
            if tb.get_id() == b.get_id():
                return tv
        if c.fork_entail and c.pc:
            # is the branch already decided by the path condition (e.g. the twin run repeats a test on a provably equal value)?
            from . import smt as _smt
            from .rel import cone_defs, vars_of
            bv = set(vars_of(b).keys())
            for d in cone_defs(c, [b]):
                bv |= set(vars_of(d).keys())
            lits = [l for l in c.pc if bv & set(vars_of(l).keys())]
            if lits:
                facts = list(c.assumptions) + lits + cone_defs(c, [b] + lits)
                if _smt.entails(facts, b, c.fork_entail_timeout_ms):
                    c.implied_forks += 1
                    return True
                if _smt.entails(facts, z3.Not(b), c.fork_entail_timeout_ms):
                    c.implied_forks += 1
                    return False
        val = c.decisions[k] if k < len(c.decisions) else True
        c.taken.append((b, val))
        c.pc.append(b if val else z3.Not(b))
        return val

    def __int__(self):
        return int(bool(self))

    def __index__(self):
        return int(bool(self))

    def __float__(self):
        return float(bool(self))

    def _o(self, o):
        if isinstance(o, SB):
            return o.b
        if isinstance(o, (bool, np.bool_)):
            return z3.BoolVal(bool(o))
        return None

    def __and__(self, o):
        ob = self._o(o)
        if ob is None:
            return NotImplemented
        return SB(z3.And(self.b, ob))
    __rand__ = __and__

    def __or__(self, o):
        ob = self._o(o)
        if ob is None:
            return NotImplemented
        return SB(z3.Or(self.b, ob))
    __ror__ = __or__

    def __invert__(self):
        return SB(z3.Not(self.b))

    def __mul__(self, o):
        if isinstance(o, np.ndarray):
            return NotImplemented
        return SR(self) * o
    __rmul__ = __mul__

    def __add__(self, o):
        if isinstance(o, np.ndarray):
            return NotImplemented
        return SR(self) + o
    __radd__ = __add__

    def __eq__(self, o):
        ob = self._o(o)
        if ob is None:
            return False
        return SB(self.b == ob)

    __hash__ = None

    def logical_and(self, o): return self & o
    def logical_or(self, o): return self | o
    def logical_not(self): return ~self

    def __repr__(self):
        return "SB(%s)" % self.b


def sym(name):
    return SR(z3.Real(name))


def symvec(name, n):
    a = np.empty(n, dtype=object)
    for i in range(n):
        a[i] = sym("%s%d" % (name, i))
    return a
