"""symx.explore -- depth-first path exploration over branch decisions with solver feasibility checks."""
import time
import traceback

import z3

from .values import Ctx, Concretised, PI_DEFS
from . import smt


class Path:
    __slots__ = ("ctx", "kind", "value", "exc", "feas", "decisions", "tb")

    def __init__(self, ctx, kind, value, exc, feas, decisions, tb=None):
        self.ctx, self.kind, self.value, self.exc, self.feas, self.decisions, self.tb = ctx, kind, value, exc, feas, decisions, tb

    @property
    def ok(self):
        return self.kind == "ok"

    def facts(self):
        return self.ctx.all_facts()


class ExploreResult(list):
    hit_bound = False
    infeasible = 0
    unknown_feas = 0
    secs = 0.0


def explore(fn, assumptions=(), max_paths=200, feas_timeout_ms=10000, setup=None, catch=(Exception,), use_defs_in_feas=True):
    """Re-executes fn() over branch-decision prefixes.  Returns the feasible paths (Path objects).
    `setup(ctx)` may add assumptions into the fresh context before fn runs.  A harness that hits max_paths
    has .hit_bound set and must report inconclusive, never success."""
    t0 = time.time()
    work = [[]]
    out = ExploreResult()
    while work:
        if len(out) >= max_paths:
            out.hit_bound = True
            break
        pref = work.pop()
        c = Ctx(decisions=pref)
        Ctx.cur = c
        c.assumptions.extend(assumptions)
        if setup is not None:
            setup(c)
        tb = None
        try:
            res = ("ok", fn(), None)
        except Concretised as e:
            res = ("concretised", None, e)
            tb = traceback.format_exc()
        except catch as e:
            res = ("exc", None, e)
            tb = traceback.format_exc()
        # feasibility of this path
        cons = list(c.assumptions) + list(c.pc) + (list(c.defs) if use_defs_in_feas else [])
        if c.uses_pi:
            cons += PI_DEFS
        if c.pc:
            feas, _ = smt.check(cons, feas_timeout_ms)
            if feas == "unknown" and use_defs_in_feas:
                feas2, _ = smt.check(list(c.assumptions) + list(c.pc), feas_timeout_ms)
                if feas2 == "unsat":
                    feas = "unsat"
        else:
            feas = "sat"
        if feas != "unsat":
            if feas == "unknown":
                out.unknown_feas += 1
            out.append(Path(c, res[0], res[1], res[2], feas, [v for _, v in c.taken], tb))
        else:
            out.infeasible += 1
        # schedule alternatives for forks beyond the prefix
        for k in range(len(pref), len(c.taken)):
            alt = [v for _, v in c.taken[:k]] + [not c.taken[k][1]]
            cons = list(c.assumptions)
            for (b, v) in c.taken[:k]:
                cons.append(b if v else z3.Not(b))
            cons.append(z3.Not(c.taken[k][0]) if c.taken[k][1] else c.taken[k][0])
            r, _ = smt.check(cons, feas_timeout_ms)
            if r != "unsat":
                work.append(alt)
    out.secs = time.time() - t0
    Ctx.cur = None
    return out


def run_single(fn, assumptions=(), setup=None):
    """Run fn on one path (all forks take their default); returns Path."""
    c = Ctx()
    Ctx.cur = c
    c.assumptions.extend(assumptions)
    if setup is not None:
        setup(c)
    v = fn()
    return Path(c, "ok", v, None, "sat", [x for _, x in c.taken])
