#!/bin/bash
# usage: tools/run_seeded.sh <seeded-dir-name> <check ids...>   applies the patch to /repo, runs the checks (quick), undoes the patch
d=/verif/seeded/$1; shift
cd /repo && git status --short | grep -q . && { echo "repo not clean"; exit 9; }
git apply $d/patch.diff || exit 8
for c in "$@"; do
  out=$(cd /verif && timeout 3000 ./check $c --tier quick 2>&1); rc=$?
  nv=$(echo "$out" | grep -c "^VIOLATION")
  ni=$(echo "$out" | grep -c "^INCONCLUSIVE")
  echo "$(basename $d) check=$c rc=$rc violations=$nv inconclusive=$ni :: $(echo "$out" | grep -m1 'what:' | cut -c1-260)"
done
cd /repo && git checkout -- .
