#!/usr/bin/env python3
"""Regenerates MANIFEST.json from the table below (kept as code so that it stays valid and consistent)."""
import json

BASE_OFF = "cd /repo && /venv/bin/python -m pytest -ra -q -p no:cacheprovider --timeout=900 --continue-on-collection-errors"

CHECKS = {
    "C17": dict(
        text="All paths of StandardAtmosphere.T/P/rho/mu/a/nu (both unit systems, scalar and array) are executed symbolically with the altitude as a "
             "symbolic real and compared by z3 with a reference transcribed from the 1976 standard; profile-table and constant getters of Scene are "
             "checked with symbolic table contents and query positions; sampling at the Earth-fixed control points with symbolic pose. Bounded: 3-row tables, one aircraft with N=4.",
        note="Reals not floats; pow/exp/sqrt uninterpreted; the symx numpy facade (validated concretely) and the reference model are trusted; 3-D field tables and CSV parsing are outside.",
        technique="bounded symbolic execution of the real Python (concolic reals through numpy object arrays) + z3 on path obligations vs a reference model",
        ref="5/C17"),
}

CHECKS["C09"] = dict(
    text="The real stability_/damping_/control_/state_derivatives and derivatives() are executed symbolically (base state, pose, wind, control inputs and step sizes "
         "symbolic) with the lifting-line solve replaced by an uninterpreted function of the stored physical state; z3 decides, for every returned key, equality with a "
         "reference written from the documentation that perturbs fresh scenes through the public API; key sets compared exactly. Bounded: one aircraft family member (N=8), listed frame selections.",
    note="LLsolve and AeroADT stubs (contracts stated in evidence); reals not floats; unit quaternion; uniform wind; counterexamples are replayed on the real code with the real solver.",
    technique="bounded symbolic execution of the real analyses with contract stubs + z3 equality obligations vs a reference model; replay on real code",
    ref="5/C09")

CHECKS["C08"] = dict(
    text="Every analysis (derivative families, aero_center, distributions, MAC, reference geometry, the three trims with and without set-state) runs symbolically with "
         "stubbed solve; z3 decides that the complete physical state the next solve depends on (aircraft state, flaps, cached Earth-frame arrays, sampled atmosphere) is "
         "unchanged, or equals the returned/reported state for set-state variants, with other controls preserved and the solved flag consistent. Trim loops unrolled twice.",
    note="LLsolve/AeroADT/linsolve stubs; unit quaternion away from gimbal lock; uniform wind; nothing claimed after MaxIterationError; exports outside.",
    technique="bounded symbolic execution of the real analyses with contract stubs + z3 pre/post state equality obligations; replay on real code",
    ref="5/C08")

CHECKS["C10"] = dict(
    text="The real trim loops (pitch_trim, pitch_trim_using_orientation, target_CL) run symbolically with stubbed solve, unrolled to two iterations with symbolic residuals: z3 decides "
         "that every path either raises MaxIterationError or returns values which, applied to a fresh scene through the public API, reproduce exactly the state of the last residual "
         "evaluation, that this evaluation met the documented targets (default = weight coefficient with air-relative speed) within 1e-9, and that only the trim variables changed; "
         "missing control -> IOError; aero_center's returned point satisfies the stationarity conditions for arbitrary stub results.",
    note="Convergence of the iterations is outside; loop unrolling 2; LLsolve/AeroADT/linsolve stubs; cut point at euler_to_quat (unit norm proven, components named).",
    technique="bounded symbolic execution (loops unrolled) of the real trim code with contract stubs + z3 obligations; replay on real code",
    ref="5/C10")

CHECKS["C11"] = dict(
    text="Twin runs of every analysis (solve_forces, the four derivative families, aero_center, distributions, the three trims) on a scene with symbolic uniform wind W and "
         "Earth-fixed velocity v versus still air (exact zero wind) with velocity v - W, for both state encodings; the lifting-line solve is an uninterpreted function of the "
         "air-relative stored state; z3 decides equality of every result key. Kernel-level lemma (real flow-property / residual / integration code) is added by checks/kernel.py when present.",
    note="LLsolve keyed on air-relative state (kernel lemma); AeroADT; uniform wind only (as the property states); loops unrolled once.",
    technique="relational (twin-run) bounded symbolic execution of the real analyses + z3 equality obligations; replay on real code",
    ref="5/C11")

CHECKS["C02"] = dict(
    text="The real _integrate_forces_and_moments and distributions run on arbitrary symbolic pre-states (all section arrays, circulation, local velocities, attitude, velocity, wind, "
         "reference quantities are fresh symbols; section coefficients uninterpreted) for the lattice of solver and output options; z3 decides every entry of the result dictionary "
         "against a reference model of the load integral (cut points at the per-section load arrays, then bookkeeping on named arrays), per-section sums and exact key sets. N<=8 sections, <=2 aircraft.",
    note="Section coefficient values are taken as evaluated by the code (C16); reals not floats; unit quaternions; cut definitions used as facts.",
    technique="bounded symbolic execution of the real kernel on arbitrary pre-states with cut points + z3 (4.8.12 first) vs reference model; replay on real code",
    ref="5/C02")

CHECKS["C15"] = dict(
    text="The real control-surface setup and apply_control / set_control_state / set_aircraft_control_state run with symbolic control inputs (degrees, unit-annotated, spanwise "
         "distribution), mixing factors, saturation angle, root/tip span and flap-chord fractions; z3 compares every section deflection and flap-chord fraction with the documented "
         "clip(sum mix*input*sign)*mask formula, replacement semantics for sequences of two settings, registry contents and the solved flag. 3 controls, 2 surfaces, N<=4.",
    note="Reals not floats; pi symbolic; unit-table factor taken as is (C06); callables outside.",
    technique="bounded symbolic execution of the real control mapping + z3 vs reference formula; replay on real code",
    ref="5/C15")
CHECKS["C16"] = dict(
    text="The real airfoil-station parsing, per-pair slices, evaluation and interpolation (all seven get_cp_* getters, both sides) run with airfoil evaluations as uninterpreted "
         "functions and interior stations at symbolic positions (orderings explored by forking); z3 compares each coefficient at each control point with the linear blend of the "
         "bracketing airfoils at that point's own arguments, after every getter has already been evaluated at another flap deflection and the deflection array has been rebound (as apply_control "
         "does); default airfoil = first listed. 2..4 stations, N<=4.",
    note="Airfoil evaluations uninterpreted (airfoil_db outside /repo); control point exactly at a station excluded; CSV distributions outside.",
    technique="bounded symbolic execution with path forking over station orderings + z3 vs reference blend; replay on real code",
    ref="5/C16")

CHECKS["C07"] = dict(
    text="One inductive step per public operation (state setters in three argument shapes, control setter, add/remove aircraft, solves, distributions after a state change) from an "
         "arbitrary cache-consistent scene with symbolic base state and arguments: the real operation runs symbolically and z3 decides that the complete stored physical state the "
         "next query depends on equals that of a freshly constructed scene in the post base state, and that the solved flag only announces results of the current state. "
         "Queries are uninterpreted functions of the stored state, so a stale cache is refutable. Histories of any length follow by induction on the invariant. "
         "With two aircraft, moving either one leaves the spatial node vectors and the constant influence tensor (incl. the cross-aircraft blocks) equal to the real full recomputation.",
    note="Analyses as operations are covered by C08's harness (same oracle); LLsolve/AeroADT stubs; <=2 aircraft; the real solver's internal iteration state is C14's subject.",
    technique="inductive-step bounded symbolic execution of the real API operations + z3 state-equality obligations vs fresh construction; replay on real code",
    ref="5/C07")

CHECKS["C01"] = dict(
    text="Partial: (H2) the real Newton loop with an uninterpreted residual, unrolled to <=3 iterations: a normal return implies the last checked iterate met the tolerance and the "
         "reported circulation is the one evaluated last; the iteration cap raises SolverNotConvergedError; (H3) the error-policy table of solve_forces/_handle_error; (H4) a failing fsolve "
         "(symbolic termination flag) always falls back to the nonlinear solver; (H1, when present) the residual of the real code equals a reference jointed-horseshoe lifting-line equation. "
         "Convergence within the default iteration limit is outside.",
    note="FlowStub/ResidStub/linsolve/fsolve stubs; 'within tolerance' is claimed for the last checked iterate (the source applies one more relaxed Newton step); liveness outside.",
    technique="bounded symbolic execution (loop unrolling) of the real solver code with contract stubs + z3; fault-injection replay for the scipy path",
    ref="5/C01")
CHECKS["C03"] = dict(
    text="(L0) quaternion helper lemmas on the real functions for all real inputs (inverse pair, |q|^4 law, length, composition == quat_mult, orthogonality, det +1, unit Euler quaternion, "
         "Euler round trip at the level of the inverse-trig arguments); (L1) state parsing of orientation/velocity; (L2/L3) twin run of the whole numeric pipeline (assembly, flow properties, "
         "residual for arbitrary circulation, load integration, distributions) at the exact identity pose vs an arbitrary unit quaternion and position: rigid images of all Earth-frame arrays, "
         "invariant residual and body-frame results, with cut points and event-ordered atom alignment.",
    note="Uniform atmosphere; no impingement (denominators assumed > 1e-13); wind/stability frames via C02; analyses inherit via C08-C11 harnesses (symbolic pose); family G, N<=7.",
    technique="relational bounded symbolic execution (twin runs with cut points and atom alignment) + z3 polynomial identities; replay on real code",
    ref="5/C03")
CHECKS["C13"] = dict(
    text="(Hperm) twin run of the numeric pipeline on scenes with the same aircraft added in different orders (all states symbolic): per-aircraft blocks, residual rows and every result equal up "
         "to the block permutation; (Hdec) with the cross-aircraft influence blocks set to exact zero the rows and results of each aircraft equal those of the scene holding it alone; "
         "(Haddrem) add then remove restores exactly the stored state; (Hsel) _get_aircraft and the analyses report exactly the named aircraft. Density, viscosity and speed of sound are "
         "uninterpreted functions of the Earth-fixed position, so that every aircraft demonstrably sees the atmosphere at its own control points and origin.",
    note="The far-field limit itself (asymptotic) is outside; one-segment aircraft, N=2 each, <=3 aircraft; no impingement assumed.",
    technique="relational bounded symbolic execution (order twin with cut points; decoupling lemma) + z3; replay on real code",
    ref="5/C13")
CHECKS["C14"] = dict(
    text="Reduced claim: (Hpath) the real solve_forces dispatch for every solver type x initial guess after an earlier solve at a different, directly modified state: every residual "
         "evaluation, linear system and the integration use flow properties computed for the current state and the documented dispatch is followed; (Hlin) the real _solve_linear assembles "
         "exactly the documented linearised system for arbitrary symbolic flow arrays; (Heq) with the real flow-property, linear-start, residual and integration code (sections uninterpreted in alpha, Re, Mach, flap) "
         "the residual function each path iterates on after a history (none / earlier solve elsewhere, _solved kept or cleared) is, for every circulation, that of a fresh scene at the current state, and so are the loads. "
         "Equality of converged roots across paths and the asymptotic clause are outside.",
    note="FlowStub/ResidStub (Hpath); loop unrolled twice; Heq: Newton loop / fsolve cut to one residual evaluation at an arbitrary circulation, member m1 N=2; uniqueness of the root not decided.",
    technique="bounded symbolic execution of the real solver dispatch with recording stubs + z3; replay on real code",
    ref="5/C14")

CHECKS["C19"] = dict(
    text="Each documented constraint (39 table rows + explicit grid lists) is violated in an otherwise valid configuration and the real loaders / setters run symbolically: on every "
         "feasible path an exception must be raised before results are returned. Numeric offenders (grid entries, span fractions, angles) are symbolic and the solver produces the "
         "witness; wrong list lengths are enumerated 0..2N+3; string offenders use one reserved witness string.",
    note="Strings: equality-only use assumed (one 'other' string stands for all); first solve is LLsolve except the solver-type row (real solve).",
    technique="bounded symbolic execution of the real validation code with path exploration + z3 feasibility / witness; replay on real code",
    ref="5/C19")

CHECKS["C06"] = dict(
    text="Decided at the parsed-state level: every unit string of both tables against its exact definition (complete enumeration, 1e-6); the real import_value on annotated scalar / vector / "
         "array encodings with symbolic numbers vs pre-converted; twin parses of the real set_state on (u,v,w) vs airspeed+alpha+beta for body / stability / wind rate frames, Euler vs quaternion, "
         "annotated vs pre-converted position through add_aircraft / set_aircraft_state, scalar vs constant-array distributions on both sides; integer vs float lists (concrete differential).",
    note="Results are functions of the parsed state (C02/C12). The stored velocity of the (V,alpha,beta) encoding relies on the trigonometric round trip of set_aerodynamic_state, compared concretely only.",
    technique="relational bounded symbolic execution of the real parsers (twin encodings) + z3; replay on real code",
    ref="5/C06")
CHECKS["C20"] = dict(
    text="Partial: (H1) the real CLI runner with a recording Scene stand-in over enumerated command lists: call order, default file names, unknown commands skipped, parameters unchanged; "
         "(H2) for every analysis with filename= the object handed to json.dump is the returned object (symbolic leaves), CSV columns equal the returned distributions (concrete differential); "
         "(H3) write-monitored input dictionaries with symbolic leaves through construction and all analyses: no write reaches a caller-owned dict/list on any explored path, scenes built from "
         "one dictionary are independent.",
    note="H3 is monitored under symbolic execution (the solver only decides path feasibility); STL/VTK bytes, CSV number formatting, subprocess runs and symbolic file names are outside.",
    technique="bounded symbolic execution with recording / write-monitoring stubs + z3 path feasibility; replay on real code",
    ref="5/C20")

CHECKS["C12"] = dict(
    text="Bounded parametric family: the real WingSegment / Airplane geometry code runs with symbolic semispan, sweep, dihedral, twist, linear chord, ll_offset and connection offsets "
         "(y_offset, dx, dz; children attached at tip and at root); z3 compares every node, control point, node chord, mean section chord, section-area sum, twist/dihedral/sweep at control "
         "points, the left/right mirror relation and the default reference values with the documented curve (1e-9 absolute where concrete parameters round differently). "
         "Quarter-chord-point wings and the documented forms of ll_offset (array == float, array == callable, Kuchemann left/right mirror) are covered by concrete runs of the real code.",
    note="Constant sweep/dihedral/twist and linear chord only; trigonometric atoms with ranges from the angle box; with chained segments the (y,z) parameters are concrete; piecewise distributions, "
         "elliptic chord, Kuchemann, callables, CSV and swept-section unit vectors are outside.",
    technique="bounded symbolic execution of the real geometry generation with symbolic parameters + z3 vs the documented curve; replay on real code",
    ref="5/C12")

CHECKS["C04"] = dict(
    text="Twin run of the numeric pipeline (Earth-frame assembly, invariant flow properties, residual for an arbitrary circulation, load integration in body/stability/wind frames, per segment) on an "
         "aircraft and on its mirror image (sides swapped, CG-y negated) in the mirrored state (orientation, position, velocity, wind reflected; rates reflected as a pseudo-vector), all state "
         "symbolic: every cut array is the reflected one (moments as pseudo-vectors, rows permuted by matching reflected control points), the residual rows are equal and Fx,Fz,My,CL,CD,.. equal / "
         "Fy,Mx,Mz,CS,.. negated in every frame. The body-frame geometry of both aircraft comes from the real constructors and is compared under the reflection (1e-12); the same concrete comparison (harness mirror geometry, mismatch decided by real solves) "
         "runs on members with the Kuchemann offset (k1), a 90-degree fin with Reid corrections (g2), chained segments with winglets (g4) and control surfaces (g5).",
    note="Members m1 (right-only), g6 (left wing mounted with y_offset + tail placed from its root), thorough: + g3 (left wing, right stab with y_offset); two-sided (self-mirror) and 90-degree-fin members were not run and are outside; no control deflections (sign of antisymmetric controls: C15); "
         "geometry generation for arbitrary descriptions: C12; uniqueness of the lifting-line root outside.",
    technique="relational bounded symbolic execution (mirror twin with cut points, row permutation and atom search-alignment) + z3 polynomial identities; replay on real code",
    ref="9.6")

CHECKS["C05"] = dict(
    text="Three twin runs of the numeric pipeline with run B rescaled by a symbolic positive factor: speed (velocity, wind, rates x s; circulation x s), density (x r) and length (every stored length x k, "
         "areas x k^2, position and reference lengths x k, rates / k, circulation x k). Every cut array scales with its exponent (influence coefficients 1/k, section forces s^2, r, k^2, section moments "
         "s^2, r, k^3), the residual with s^2 / 1 / k^2, and every coefficient is equal, in all frames, total and per segment (z3, all states, all factors). For length scaling the geometry generator is "
         "exercised concretely: the real constructors run on the description scaled by 2 and 3 must store k^p x the original arrays (1e-12 relative; Reid blending, joint length, Kuchemann offset); a "
         "mismatch is replayed with real solves at k = 2, 0.5, 3.",
    note="Section data: uninterpreted functions of angle of attack and flap state only (the Re/Mach-independence premise). Twins on member r1 (one-sided swept wing with Reid corrections, N=3), thorough: + g3 and "
         "all solver options off; generator on r1, r2 (Kuchemann), g2 (+ g3, g4 thorough). In the length twin both runs carry the geometry as float x symbol^p (unit scale of run A assumed 1) and the "
         "1/k relations are kept in multiplied form, so no reciprocal of k enters an expression. Geometry generation at scale factors other than 2 and 3, nondimensional derivatives and root uniqueness outside.",
    technique="relational bounded symbolic execution (scaling twins with cut points and homogeneity rules for atom alignment) + z3; concrete generator homogeneity with replay on real code",
    ref="9.6")

NOT_APPLICABLE = {
    "C18": "classical lifting-line limits: a convergence statement about the N>=20 discrete solution (value and rate under grid refinement); no bounded SMT encoding of the 40x40 transcendental system is within reach and the small N the engine handles is where the claim is not expected to hold",
}

PENDING_REASON = "check not yet landed (framework under construction); see DESIGN.md section 5"


def main():
    checks = []
    for pid in sorted(CHECKS):
        c = CHECKS[pid]
        checks.append({
            "property_id": pid,
            "quick_cmd": "./check %s --tier quick" % pid,
            "thorough_cmd": "./check %s --tier thorough" % pid,
            "evidence_file": "/verif/evidence/%s.json" % pid,
            "replay_cmd_template": "./check %s --replay {path}" % pid,
            "engine": "symx",
            "level_claimed": {"category": "other", "text": c["text"], "design_ref": "DESIGN.md section " + c["ref"]},
            "level_note": c["note"],
            "technique": c["technique"],
        })
    pending = {"C%02d" % i: PENDING_REASON for i in range(1, 21) if "C%02d" % i not in CHECKS and "C%02d" % i not in NOT_APPLICABLE}
    na = [{"property_id": k, "reason": v} for k, v in sorted({**NOT_APPLICABLE, **pending}.items())]
    m = {
        "version": 1,
        "setup_cmd": "./setup.sh",
        "hooks": {"guard": "MACHUPX_VERIF", "enable": "no source hooks: the symx facade is injected into the machupX module globals by the checking process only (MACHUPX_VERIF=1 is exported by ./check for documentation)",
                  "baseline_off_cmd": BASE_OFF, "source_commits": [], "add_only": True},
        "engines": [{"name": "symx", "path": "/verif/symx", "serves_properties": sorted(CHECKS), "kind_free_text": "bounded symbolic execution of the real MachUpX Python code with concolic reals in numpy object arrays; obligations decided by z3 5.1 / z3 4.8.12 / cvc5; counterexamples replayed on the unmodified code"}],
        "checks": checks,
        "not_applicable": na,
        "notes": "Exit codes: 0 all obligations discharged; 1 + VIOLATION line for a counterexample that reproduced on the real code; 2 + INCONCLUSIVE for solver give-ups, path-bound hits, harness errors and non-reproducing counterexamples. known_findings.json lists genuine defects (open -> KNOWN-FINDING line, fixed -> nothing suppressed).",
    }
    with open("MANIFEST.json", "w") as f:
        json.dump(m, f, indent=1)
    print("MANIFEST.json: %d checks, %d not_applicable" % (len(checks), len(na)))


if __name__ == "__main__":
    main()
